#!/usr/bin/env python3
"""Regenerates /verif/MANIFEST.json from the table below (kept by hand)."""
import json

CLAIMED = {
 "C01": ("Fold functions of the optimizer (binaryopInts/Floats, binaryop, unaryop, isLiteralFalsy) are proved against the same specArith/specUnary/specFalsy that the VM's operator methods and xOpUnary are proved against, keep the literal position and never panic, for all operand values. Not decided: completeness of shadow tracking in transform, equivalence of the private-VM evaluation (slowEvalExpr), canOptimizeInsts tables.",
         "go/ssa extraction, VC generator, solvers; strconv formatters opaque; composition from per-function contracts to whole scripts is argued in DESIGN.md, not machine-checked"),
 "C03": ("Handler-stack discipline of the try opcodes proved function by function: SETUPTRY pushes exactly one entry, SETUPCATCH/SETUPFINALLY change only the top entry and deliver the pending error once, THROW 0 without pending error removes exactly the entry being left on every path (normal completion and pending jump), findFinally pops only entries without finally (goto loop with quantified invariants), and a self-recursive tail call (frame reuse in xOpCallCompiled) leaves the frame without handlers and without pending error. throw and handleThrownError are verified (no longer trusted): an error is delivered in the frame that is made current first, so a handler used up by its own finally block hands the error to the enclosing handlers of the same function. Not decided: FINALIZER/RETURN arms of VM.loop, compiler side, which frame is the nearest one with a live handler (stated only as the current-frame discipline).",
         "vm.curFrame and vm.frames[] are modelled as non-aliasing; the induction from opcode contracts to all programs is argued"),
 "C04": ("decode(encode(x)) == x bit for bit for the scalar constant kinds Int, Uint, Char, Float (including -0.0 and NaN) and Bool: lemmas over the real MarshalBinary / UnmarshalBinary bodies. Not decided: strings, bytes, containers, compiled functions, file sets, the reader-based DecodeObject path, module re-binding, and the step from equal constants and code to equal behaviour.",
         "binary.PutVarint/Varint and PutUvarint/Uvarint trusted as mutually inverse abstract encodings of 1..10 bytes (ghost model; encoded bytes assumed not overwritten before decoding)"),
 "C05": ("Fold functions total (no division/shift panic) for all operands; MakeInstruction proved for every opcode (an instruction is produced iff the operands fit the opcode's operand table read from the source, it has the table's length and decodes back to the same operands) and ReadOperands proved against the same decoding spec; operand-table arity lemma. Not decided: the emitter's reaction to operand overflow (panic(err) in emit/changeOperand is a known open issue not yet under contract), parser and scanner totality, termination.",
         "OpcodeOperands read mechanically from its initialiser (checked: never assigned outside init); fmt.Errorf returns non-nil"),
 "C13": ("Root symbol table mechanism: Resolve returns a builtin symbol only for a name that is not disabled, keeps the table invariant (a cached builtin symbol exists only for names that are not disabled) and does not touch the disabled set; DisableBuiltin adds every given name to the disabled set and re-establishes the invariant (loop with quantified invariants over the maps); root and isBuiltinDisabled against the ghost root function. Propagation: disabledBuiltinsMap returns the root's set from any nested table; copyMapStringSet (the copy given to a module's table) has exactly the same names (range-loop completeness through the ghost visited set); optimCopyBuiltinStates gives the optimizer's evaluator table every name disabled for the compiler. Not decided: Resolve through nested (forked) tables, the single assignment in compileModule that installs the copy, the shadowed-names half of optimCopyBuiltinStates, the compiler's emission sites of GETBUILTIN.",
         "rootOf is a ghost function defined by axioms over parent links, assumed never reassigned"),
 "C19": ("Safety sweep (no index, slice, nil, assertion, division, make, map or stdlib-precondition panic for well-formed arguments) of 32 builtin function bodies: cap, copy, delete, len, repeat, sort, sortReverse, error, typeName, bool, int, uint, float, char, string, println, globals, isError and the is* predicates. Not covered: append, bytes, chars, contains, printf, sprintf, :makeArray, the generated argument adapters (zfuncs.go), Call.Get, and the fmt, json, strings and time modules.",
         "arguments are non-nil Objects (undefined is the singleton); array arguments of sort/sortReverse hold no nil element; Objects returned by calls never hold typed nil pointers; dynamic method calls on Objects of kinds outside the vocabulary return arbitrary results and do not panic; sort.Slice calls its comparison only with in-range indexes (the closure body itself is checked for arbitrary index pairs); strconv, fmt assumed panic-free; strings.Repeat/bytes.Repeat preconditions are obligations"),
 "C20": ("Scalar values cross the Go boundary unchanged: ToObject(ToInterface(o)) is o (same type and value, bit equality for floats) for int, uint, float, char, bool, string and undefined; ToInterface(ToObject(v)) is v for int64, uint64, float64, rune, bool, string and nil; int, uint, uintptr, byte and float32 convert to the uGO value with the same numeric value; lemmas over the real ToObject/ToInterface bodies. ToObject and ToObjectAlt return a value or an error, never both or neither, and a converted []any / map[string]any has no nil element (a nested unsupported value is reported, not dropped); ToObject, ToObjectAlt and ToInterface are panic-free (nested values through the functions' own contracts). Not decided: round trips of bytes, arrays and maps (need inductive lemmas over nesting), ToObjectAlt value clauses, the numeric helper conversions, error for unsupported types.",
         "registry converters trusted (assumed non-nil and panic-free); sync locks no-ops"),
 "C02": ("Only the call-argument binding clause of the statement: entering a compiled function binds fixed parameters to the arguments in order, packs the remaining arguments of a variadic function into an array and leaves every other local undefined - proved for calls from Go (VM.initLocals) and for in-script calls without spread (VM.xOpCallCompiled, flags == 0) against the same clauses, including the frame re-use of a self-recursive tail call (after which the stack pointer is back below the callee slot and the abandoned slots are nil); the packed variadic array shares no storage with the caller's arguments or the stack. Everything else in the statement (evaluation order, scoping, closures, compound assignment, loops, spread calls, destructuring) is not covered; The tail-call clause is stated on the same function: a frame is re-used only when the instruction after the call is RETURN; the CALL; POP; RETURN shape (the discarded self-call returns the callee's value where ordinary recursion returns undefined) fails that clause and is the one open known finding (KNOWN-FINDING line, see known_findings.json: the repair conflicts with an existing test).",
         "call preconditions vmCallOK (callee below the arguments, frame fits the stack, a function calling itself has its locals below the callee); one parked obligation (variadic + tail call) listed in the evidence"),
 "C06": ("The recovery path itself is total: handlePanic (called by run()'s deferred function outside any recover), throwGenErr, throw and handleThrownError never panic in any VM state satisfying vmPanicPoint (current frame exists, handlers remember non-negative stack pointers, callers' frames still have their functions) - the stack pointer, instruction pointer and frame index may be anything, including at or beyond their limits; handlePanic leaves either vm.err set or a VM state in which the loop can be re-entered. Second layer: that assumption is itself checked on the real interpreter loop - VM.loop is verified once per opcode (45 runs) in 'panic mode': every safety condition (index, nil, assertion, division, make), every call into code outside the module or through an interface and every explicit panic becomes the obligation 'vmPanicPoint holds here', and every arm re-establishes the loop invariant (current frame == frames[frameIndex-1] with its function, callers' frames intact, handlers with non-negative sp, sp >= 0); the throw path and the call/throw opcodes have panic-mode contracts of their own. Not decided: that every panic raised reaches run()'s recover (defer/recover semantics are not modelled); 12 parked obligations (sp >= 0 across calls needs the compiler's stack discipline; two engine limits) listed in the evidence; Run's epilogue, Invoker paths, reuse of the VM afterwards (C07).",
         "dynamic calls (Object methods of user types, Go callbacks) may panic but are assumed not to write the VM's own fields; functions not inlined (depth 8 / recursion) are replaced by their transitive mod-set; dynamic Error()/String() calls on error values and runtime.Stack assumed panic-free; recover/defer semantics not modelled"),
 "C07": ("Installing bytecode, clearing a VM and setting up frame 0 are functions of their inputs only and never write the Bytecode: SetBytecode, Clear (every stack slot nil, cache and globals dropped), initCurrentFrame, clearCurrentFrame, each with a proved frame clause listing exactly the VM fields written. Not decided: the Run prologue as a whole (two-state non-interference), OP_CLOSURE, slots above sp / frames above frameIndex never being read before written.",
         "sync locks no-ops; vmPool.clear modelled through the map component"),
 "C12": ("Module store: addModule hands out index == old count, keeps all indexes below the count and pairwise distinct (quantified invariant over the map), getModule returns the stored entry; BuiltinModule.Import returns a copy that is not the shared attribute map and carries the module name, leaving the module untouched. Not decided: LOADMODULE/STOREMODULE arms of VM.loop, compileImportExpr's emission pattern, cyclic import detection, which import executes first.",
         "Map.Copy's dynamic Copy() calls on values of kinds outside the vocabulary return arbitrary results"),
 "C14": ("Parameter binding on entry from Go (initLocals) and for in-script calls (xOpCallCompiled) proved against the same clauses (fixed, variadic packing, undefined locals); a pooled child VM gets exactly the root's file set, constants, module cache, recovery flag and the callee as main function and is registered (_acquire), and is wiped and unregistered on release (_release). Not decided: Invoker.Invoke itself, equality of whole runs, error propagation.",
         "same as C02; vmSyncPool opaque"),
 "C15": ("Equal and BinaryOp of Int, Uint, Float, Char, Bool, String, Bytes, undefined proved against specEq/specArith/specOrder for all operand values (bit-vector/IEEE semantics), errors are ZeroDivisionError/TypeError and never a panic; symmetry, trichotomy and derived-order lemmas over the spec; xOpUnary. Not decided: arrays/maps/errors Equal, the VM's OpEqual/OpNotEqual arms.",
         "dynamic TypeName()/String() calls assumed panic-free; interface-level dispatch closed over the listed kinds"),
 "C18": ("Safety sweep with thin contracts of the version 2 decoder: toVarint, readByteFrom, varintConv.read/readBytes, DecodeObject, decodeBytecodeV2, Bytecode.UnmarshalBinary and the UnmarshalBinary methods of every constant kind, function kinds, SourceFile and SourceFileSet: no index, slice, nil, type-assertion, division or make panic for arbitrary input bytes and readers, and every allocation whose size is not a constant is bounded by 1 MiB or by the input bytes in hand (len of the input slice / Len() of the reader). Not decided: the version 1 converter (assumed contract, excluded from the claim), gob fallback, three parked obligations (builtin table contents, DecodeObject non-nil result).",
         "stdlib models: io.ReadFull, bytes.NewReader/NewBuffer non-nil, Reader/Buffer.Len, binary varints, fmt.Errorf/errors.New non-nil; calls through io.Reader return arbitrary results; gob and reflect opaque; loop-free of invariants except automatically derived counter bounds (proved at every back edge)"),
 "C16": ("searchInts (binary search, quantified loop invariants), unpack, position, Position, Offset, searchFiles, SourceFileSet.file/Position: reported line/column are the true ones for the line table and every returned file contains the position. AddLine preserves the line-table invariant. Not decided: scanner line-table construction, optimizer on/off equality, shift-by-k.",
         "sort.Search trusted contract (calls f only inside [0,n), f(r) and !f(r-1))"),
}
NA = {
 "C08": "quantifies over goroutine interleavings and data races; the sequential VC generator has no ownership or permission logic",
 "C09": "cross-goroutine abort/cancellation protocol with bounded liveness; no thread or liveness support in this family",
 "C10": "relates two compilation histories (N fragments vs one concatenation); no per-function contract expresses it",
 "C11": "the converter's relocation contract (loop invariant over the instruction stream) is not discharged yet; MakeInstruction/ReadOperands, which it relies on, are proved under C05; the relocation defect itself was repaired (fix: commit)",
 "C17": "oracle is encoding/json itself; stating it as contracts means formalising that implementation (string/sequence reasoning outside the solvers' reach)",
}

def main():
    props = [json.loads(l)["id"] for l in open("/verif/properties.jsonl")]
    checks = []
    for p in props:
        if p not in CLAIMED:
            continue
        text, note = CLAIMED[p]
        checks.append({
            "property_id": p,
            "quick_cmd": "/verif/bin/govc check %s --tier quick" % p,
            "thorough_cmd": "/verif/bin/govc check %s --tier thorough" % p,
            "evidence_file": "/verif/evidence/%s.json" % p,
            "replay_cmd_template": "/verif/bin/govc replay {path}",
            "engine": "govc",
            "level_claimed": {"category": "proof", "text": text, "design_ref": "DESIGN.md section 4/" + p},
            "level_note": "Trusted: " + note + "; every further assumption is listed in the evidence file.",
            "technique": "contract-based deductive verification: VCs generated from go/ssa for //@ contracts, discharged by z3 4.8.12 / z3 5.1.0 / cvc5 1.0.3",
        })
    m = {
        "version": 1,
        "setup_cmd": "cd /verif/engine && GOFLAGS=-mod=mod GOPROXY=off GOSUMDB=off GOTOOLCHAIN=local go build -o /verif/bin/govc .",
        "hooks": {
            "guard": "verif",
            "enable": "-tags=verif (contract comment files verif_contracts.go, spec functions verif_spec.go, run-time intrinsics internal/verifrt; nothing is compiled without the tag)",
            "baseline_off_cmd": "cd /repo && GOFLAGS=-mod=mod GOPROXY=off GOSUMDB=off go test -vet=off -count=1 ./...",
            "source_commits": HOOKS,
            "add_only": True,
        },
        "engines": [{"name": "govc", "path": "/verif/engine", "serves_properties": sorted(CLAIMED),
                     "kind_free_text": "VC generator over go/ssa (symbolic execution to SMT-LIB, loop cutting with invariants, callee contracts, frame checks) for contracts kept as //@ comments in build-tag-guarded files of /repo; obligations raced on z3 4.8.12, z3 5.1.0, cvc5 1.0.3; counterexamples replayed on the real code through go test -overlay"}],
        "checks": checks,
        "not_applicable": [{"property_id": p, "reason": NA[p]} for p in props if p not in CLAIMED],
        "notes": "Self-test corpus: /verif/selftest/run.py (must-fail / must-pass patches). Known findings and fixed defects: /verif/known_findings.json. Parked obligations: /verif/undecided.json.",
    }
    json.dump(m, open("/verif/MANIFEST.json", "w"), indent=1)

import subprocess
HOOKS = [l.split()[0] for l in subprocess.run(["git", "-C", "/repo", "log", "--format=%h %s"], capture_output=True, text=True).stdout.splitlines() if l.split(" ", 1)[1].startswith("verif:")]
main()
