#!/usr/bin/env python3
"""Confirm a seeded change and store it under /verif/seeded/<name>/.

usage: seed.py <property> <name> <srcdir> [--demo-dir DIR] [--needs TEXT] [--checks C15,C01]
  srcdir contains patch.diff, demo_test.go, README.md (written by a sub-agent).
Steps (all in a fresh scratch worktree of /repo HEAD, removed afterwards):
  build, full test suite with the change (must pass), demo with the change (must fail),
  demo without the change (must pass). Then the registered checks are run against /repo
  with the patch applied (git apply / git apply -R) and their verdict recorded.
"""
import json, os, shutil, subprocess, sys, tempfile, time

ENV = dict(os.environ, GOFLAGS="-mod=mod", GOPROXY="off", GOSUMDB="off", GOTOOLCHAIN="local")
# the checks run against a patched tree here: keep their evidence and replay files out of /verif
CHECK_ENV = dict(ENV, VERIF_DIR=tempfile.mkdtemp(prefix="verif-seedrun-"))

def run(cmd, cwd=None, timeout=1800):
    r = subprocess.run(cmd, cwd=cwd, env=ENV, capture_output=True, text=True, timeout=timeout)
    return r.returncode, (r.stdout + r.stderr)

def main():
    prop, name, src = sys.argv[1:4]
    demo_dir, needs, checks = ".", "", prop
    a = sys.argv[4:]
    while a:
        if a[0] == "--demo-dir": demo_dir = a[1]; a = a[2:]
        elif a[0] == "--needs": needs = a[1]; a = a[2:]
        elif a[0] == "--checks": checks = a[1]; a = a[2:]
        else: raise SystemExit("bad arg " + a[0])
    patch = os.path.join(src, "patch.diff")
    demo = os.path.join(src, "demo_test.go")
    wt = tempfile.mkdtemp(prefix="verif-seedconfirm-")
    os.rmdir(wt)
    ran = []
    try:
        rc, out = run(["git", "-C", "/repo", "worktree", "add", "-q", "--detach", wt, "HEAD"])
        assert rc == 0, out
        rc, out = run(["git", "apply", patch], cwd=wt); assert rc == 0, "patch does not apply: " + out
        rc, out = run(["go", "build", "./..."], cwd=wt); ran.append("go build ./... -> %d" % rc); assert rc == 0, out
        rc, out = run(["go", "test", "-vet=off", "-count=1", "./..."], cwd=wt)
        ran.append("go test -vet=off -count=1 ./... (with change) -> %d" % rc)
        assert rc == 0, "existing suite fails with the change:\n" + out[-2000:]
        dst = os.path.join(wt, demo_dir, "zz_seed_demo_test.go")
        shutil.copy(demo, dst)
        import re
        names = re.findall(r"^func (Test\w+)\(", open(demo).read(), re.M)
        pat = "^(" + "|".join(names) + ")$"
        rc1, out1 = run(["go", "test", "-vet=off", "-count=1", "-run", pat, "./" + demo_dir], cwd=wt)
        ran.append("demo with change -> %d" % rc1)
        assert rc1 != 0, "demo does not fail with the change"
        rc, out = run(["git", "apply", "-R", patch], cwd=wt); assert rc == 0, out
        rc2, out2 = run(["go", "test", "-vet=off", "-count=1", "-run", pat, "./" + demo_dir], cwd=wt)
        ran.append("demo without change -> %d" % rc2)
        assert rc2 == 0, "demo fails even without the change:\n" + out2[-2000:]
    finally:
        run(["git", "-C", "/repo", "worktree", "remove", "--force", wt])
        shutil.rmtree(wt, ignore_errors=True)
    # our checks against /repo with the patch applied
    st = subprocess.run(["git", "-C", "/repo", "status", "--porcelain"], capture_output=True, text=True).stdout.strip()
    assert st == "", "/repo has uncommitted changes; commit first:\n" + st
    verdicts = {}
    rc, out = run(["git", "-C", "/repo", "apply", patch]); assert rc == 0, out
    try:
        for c in checks.split(","):
            t0 = time.time()
            rc, out = run(["/verif/bin/govc", "check", c, "--tier", "quick"], cwd="/verif")
            viol = [l for l in out.splitlines() if l.startswith("VIOLATION")]
            obl = [l.strip() for l in out.splitlines() if l.strip().startswith("obligation")]
            verdicts[c] = {"exit": rc, "violations": len(viol), "first_obligations": obl[:4], "seconds": round(time.time() - t0, 1)}
    finally:
        run(["git", "-C", "/repo", "apply", "-R", patch])
        # evidence files were rewritten by the seeded run: restore them from the clean tree
        for c in checks.split(","):
            run(["/verif/bin/govc", "check", c, "--tier", "quick"], cwd="/verif")
    out_dir = os.path.join("/verif/seeded", name)
    os.makedirs(out_dir, exist_ok=True)
    shutil.copy(patch, os.path.join(out_dir, "patch.diff"))
    shutil.copy(demo, os.path.join(out_dir, "demo_test.go"))
    if os.path.exists(os.path.join(src, "README.md")):
        shutil.copy(os.path.join(src, "README.md"), os.path.join(out_dir, "AGENT_README.md"))
    caught = any(v["exit"] == 1 and v["violations"] > 0 for v in verdicts.values())
    meta = {"property": prop, "name": name, "needs_to_manifest": needs, "demo_dir": demo_dir,
            "confirmed": ran, "repo_commit": subprocess.run(["git", "-C", "/repo", "rev-parse", "--short", "HEAD"], capture_output=True, text=True).stdout.strip(),
            "checks_run": verdicts, "caught": caught}
    json.dump(meta, open(os.path.join(out_dir, "meta.json"), "w"), indent=1)
    print(json.dumps(meta, indent=1))

main()
