package main

// Counterexample extraction and replay on the real code.

import (
	"bytes"
	"context"
	"encoding/json"
	"fmt"
	"go/types"
	"math"
	"os"
	"os/exec"
	"path/filepath"
	"strconv"
	"strings"
	"time"

	"golang.org/x/tools/go/ssa"
)

// ---- S-expression parsing of (get-value) answers

type sexp struct {
	atom string
	list []*sexp
}

func parseSexps(s string) []*sexp {
	var out []*sexp
	i := 0
	var parse func() *sexp
	skip := func() {
		for i < len(s) && (s[i] == ' ' || s[i] == '\n' || s[i] == '\t' || s[i] == '\r') {
			i++
		}
	}
	parse = func() *sexp {
		skip()
		if i >= len(s) {
			return nil
		}
		if s[i] == '(' {
			i++
			n := &sexp{}
			for {
				skip()
				if i >= len(s) {
					return n
				}
				if s[i] == ')' {
					i++
					return n
				}
				c := parse()
				if c == nil {
					return n
				}
				n.list = append(n.list, c)
			}
		}
		if s[i] == '"' {
			j := i + 1
			for j < len(s) && s[j] != '"' {
				j++
			}
			a := s[i:min(j+1, len(s))]
			i = j + 1
			return &sexp{atom: a}
		}
		if s[i] == '|' {
			j := i + 1
			for j < len(s) && s[j] != '|' {
				j++
			}
			a := s[i:min(j+1, len(s))]
			i = j + 1
			return &sexp{atom: a}
		}
		j := i
		for j < len(s) && !strings.ContainsRune(" \n\t\r()", rune(s[j])) {
			j++
		}
		a := s[i:j]
		i = j
		return &sexp{atom: a}
	}
	for {
		skip()
		if i >= len(s) {
			break
		}
		if s[i] == ')' {
			i++
			continue
		}
		e := parse()
		if e == nil {
			break
		}
		out = append(out, e)
	}
	return out
}

func (e *sexp) String() string {
	if e.list == nil && e.atom != "" {
		return e.atom
	}
	var parts []string
	for _, c := range e.list {
		parts = append(parts, c.String())
	}
	return "(" + strings.Join(parts, " ") + ")"
}

func bvOfSexp(e *sexp) (uint64, bool) {
	if e.atom != "" {
		if strings.HasPrefix(e.atom, "#x") {
			v, err := strconv.ParseUint(e.atom[2:], 16, 64)
			return v, err == nil
		}
		if strings.HasPrefix(e.atom, "#b") {
			v, err := strconv.ParseUint(e.atom[2:], 2, 64)
			return v, err == nil
		}
		return 0, false
	}
	// (_ bvN w)
	if len(e.list) == 3 && e.list[0].atom == "_" && strings.HasPrefix(e.list[1].atom, "bv") {
		v, err := strconv.ParseUint(e.list[1].atom[2:], 10, 64)
		return v, err == nil
	}
	return 0, false
}

func intOfSexp(e *sexp) (int64, bool) {
	if e.atom != "" {
		v, err := strconv.ParseInt(e.atom, 10, 64)
		return v, err == nil
	}
	if len(e.list) == 2 && e.list[0].atom == "-" {
		v, ok := intOfSexp(e.list[1])
		return -v, ok
	}
	return 0, false
}

// f64OfSexp returns the bit pattern.
func f64OfSexp(e *sexp) (uint64, bool) {
	if len(e.list) == 4 && e.list[0].atom == "fp" {
		s, ok1 := bvOfSexp(e.list[1])
		ex, ok2 := bvOfSexp(e.list[2])
		m, ok3 := bvOfSexp(e.list[3])
		if ok1 && ok2 && ok3 {
			return s<<63 | ex<<52 | m, true
		}
	}
	if len(e.list) == 4 && e.list[0].atom == "_" {
		switch e.list[1].atom {
		case "+zero":
			return 0, true
		case "-zero":
			return 1 << 63, true
		case "+oo":
			return 0x7ff0000000000000, true
		case "-oo":
			return 0xfff0000000000000, true
		case "NaN":
			return 0x7ff8000000000001, true
		}
	}
	return 0, false
}

// ---- model session: repeated solver runs with pinned values

type modelSession struct {
	x      *Exec
	o      *Obligation
	solver string
	dir    string
	pins   []*Term
	cache  map[int]*sexp
	rounds int
	start  time.Time
	inst   bool
}

func (m *modelSession) values(terms []*Term) ([]*sexp, error) {
	var need []*Term
	for _, t := range terms {
		if _, ok := m.cache[t.id]; !ok {
			need = append(need, t)
		}
	}
	if len(need) > 0 {
		m.rounds++
		if m.rounds > 120 {
			return nil, fmt.Errorf("too many model rounds")
		}
		if m.start.IsZero() {
			m.start = time.Now()
		}
		if time.Since(m.start) > 45*time.Second {
			return nil, fmt.Errorf("model extraction exceeded its time budget")
		}
		// pin what we know
		saved := m.x.assumes
		n := m.o.nAssume
		pinned := append(append([]*Term{}, m.x.assumes[:n]...), m.pins...)
		m.x.assumes = pinned
		o2 := *m.o
		o2.nAssume = len(pinned)
		text := m.x.smtTextMode(&o2, need, m.inst)
		m.x.assumes = saved
		file := filepath.Join(m.dir, fmt.Sprintf("%s.model%d.smt2", sanitize(m.o.Name), m.rounds))
		os.WriteFile(file, []byte(text), 0o644)
		var sp solverSpec
		for _, s := range solvers {
			if s.name == m.solver {
				sp = s
			}
		}
		ctx, cancel := context.WithTimeout(context.Background(), 15*time.Second)
		defer cancel()
		argv := sp.argv(file, 12)
		cmd := exec.CommandContext(ctx, argv[0], argv[1:]...)
		var out bytes.Buffer
		cmd.Stdout = &out
		cmd.Run()
		s := out.String()
		first, rest, _ := strings.Cut(strings.TrimSpace(s), "\n")
		if strings.TrimSpace(first) != "sat" {
			return nil, fmt.Errorf("model run answered %q", first)
		}
		es := parseSexps(rest)
		// each answer: ((term value))
		if len(es) < len(need) {
			return nil, fmt.Errorf("model run returned %d values for %d terms", len(es), len(need))
		}
		for i, t := range need {
			e := es[i]
			if len(e.list) == 1 && len(e.list[0].list) == 2 {
				m.cache[t.id] = e.list[0].list[1]
			} else {
				return nil, fmt.Errorf("unexpected get-value answer %s", e)
			}
			// pin scalar values
			v := m.cache[t.id]
			if t.kind == kLeaf && isLiteral(t.op) {
				continue
			}
			ts := m.x.w.ts
			switch {
			case t.sort.bvWidth() > 0:
				if bv, ok := bvOfSexp(v); ok {
					m.pins = append(m.pins, ts.Eq(t, ts.BV(bv, t.sort.bvWidth())))
				}
			case t.sort == SBool:
				m.pins = append(m.pins, ts.Eq(t, ts.BoolLit(v.atom == "true")))
			case t.sort == SInt:
				if iv, ok := intOfSexp(v); ok {
					m.pins = append(m.pins, ts.Eq(t, ts.IntLit(iv)))
				}
			case t.sort == SF64:
				if bits, ok := f64OfSexp(v); ok && bits != 0x7ff8000000000001 {
					m.pins = append(m.pins, ts.Eq(t, m.x.f64Lit(math.Float64frombits(bits))))
				}
			}
		}
	}
	out := make([]*sexp, len(terms))
	for i, t := range terms {
		out[i] = m.cache[t.id]
	}
	return out, nil
}

func (m *modelSession) value(t *Term) (*sexp, error) {
	v, err := m.values([]*Term{t})
	if err != nil {
		return nil, err
	}
	return v[0], nil
}

// goLiteral builds a Go expression of type typ for term t under the model.
type litCtx struct {
	m       *modelSession
	qual    types.Qualifier
	pre     *strings.Builder // statements before the call
	nvar    int
	st      *State // initial state for heap reads
	imports map[string]bool
	approx  []string
	start   time.Time
}

func (lc *litCtx) typeStr(t types.Type) string { return types.TypeString(t, lc.qual) }

func (lc *litCtx) lit(t *Term, typ types.Type, depth int) (string, error) {
	x := lc.m.x
	w := x.w
	ts := w.ts
	if depth > 8 {
		return "", fmt.Errorf("value too deep")
	}
	tname := lc.typeStr(typ)
	switch u := typ.Underlying().(type) {
	case *types.Basic:
		switch {
		case u.Info()&types.IsBoolean != 0:
			v, err := lc.m.value(t)
			if err != nil {
				return "", err
			}
			return fmt.Sprintf("%s(%s)", tname, v.atom), nil
		case u.Info()&types.IsInteger != 0:
			v, err := lc.m.value(t)
			if err != nil {
				return "", err
			}
			bv, ok := bvOfSexp(v)
			if !ok {
				return "", fmt.Errorf("bad bv value %s", v)
			}
			wd := t.sort.bvWidth()
			if isSigned(typ) {
				sv := int64(bv)
				if wd < 64 && bv&(1<<(uint(wd)-1)) != 0 {
					sv = int64(bv) - (1 << uint(wd))
				}
				if sv == -9223372036854775808 {
					return fmt.Sprintf("%s(-9223372036854775807-1)", tname), nil
				}
				return fmt.Sprintf("%s(%d)", tname, sv), nil
			}
			return fmt.Sprintf("%s(%d)", tname, bv), nil
		case u.Kind() == types.Float64:
			v, err := lc.m.value(t)
			if err != nil {
				return "", err
			}
			bits, ok := f64OfSexp(v)
			if !ok {
				return "", fmt.Errorf("bad float value %s", v)
			}
			lc.imports["math"] = true
			return fmt.Sprintf("%s(math.Float64frombits(0x%x))", tname, bits), nil
		case u.Info()&types.IsString != 0:
			lnv, err := lc.m.value(w.strLen(t))
			if err != nil {
				return "", err
			}
			ln, _ := bvOfSexp(lnv)
			if ln > 256 {
				return "", fmt.Errorf("string too long in model (%d)", ln)
			}
			var terms []*Term
			for i := uint64(0); i < ln; i++ {
				terms = append(terms, ts.Select(w.Fun("str_bytes", SArr(SBV(64), SBV(8)), t), ts.BV(i, 64)))
			}
			vals, err := lc.m.values(terms)
			if err != nil {
				return "", err
			}
			var bs []byte
			for _, v := range vals {
				b, _ := bvOfSexp(v)
				bs = append(bs, byte(b))
			}
			return fmt.Sprintf("%s(%q)", tname, string(bs)), nil
		}
	case *types.Slice:
		vals, err := lc.m.values([]*Term{w.sArr(t), w.sOff(t), w.sLen(t), w.sCap(t)})
		if err != nil {
			return "", err
		}
		arr, _ := intOfSexp(vals[0])
		ln, _ := bvOfSexp(vals[2])
		cp, _ := bvOfSexp(vals[3])
		if arr == 0 {
			return fmt.Sprintf("%s(nil)", tname), nil
		}
		if ln > 64 || cp > 4096 {
			return "", fmt.Errorf("slice too long in model (len %d cap %d)", ln, cp)
		}
		n, s := x.elemComp(u.Elem())
		row := ts.Select(x.comp(lc.st, n, s), w.sArr(t))
		var elems []string
		for i := uint64(0); i < ln; i++ {
			e, err := lc.lit(ts.Select(row, x.bvOp("bvadd", w.sOff(t), ts.BV(i, 64))), u.Elem(), depth+1)
			if err != nil {
				return "", err
			}
			elems = append(elems, e)
		}
		lc.nvar++
		name := fmt.Sprintf("s%d", lc.nvar)
		fmt.Fprintf(lc.pre, "\t%s := make(%s, %d, %d)\n", name, tname, ln, cp)
		for i, e := range elems {
			fmt.Fprintf(lc.pre, "\t%s[%d] = %s\n", name, i, e)
		}
		return name, nil
	case *types.Interface:
		v, err := lc.m.value(t)
		if err != nil {
			return "", err
		}
		if v.atom == "iface_nil" {
			return fmt.Sprintf("%s(nil)", tname), nil
		}
		ctor := v.atom
		if ctor == "" && len(v.list) > 0 {
			ctor = v.list[0].atom
		}
		for _, k := range w.boxOrder {
			b := w.boxes[k]
			if b.ctor == ctor {
				inner, err := lc.lit(w.unbox(b.typ, t), b.typ, depth+1)
				if err != nil {
					return "", err
				}
				return fmt.Sprintf("%s(%s)", tname, inner), nil
			}
		}
		// a dynamic type the contract does not talk about: best effort
		lc.approx = append(lc.approx, fmt.Sprintf("%s: %s replaced by nil", tname, v))
		return fmt.Sprintf("%s(nil)", tname), nil
	case *types.Pointer:
		v, err := lc.m.value(t)
		if err != nil {
			return "", err
		}
		r, _ := intOfSexp(v)
		if r == 0 {
			return fmt.Sprintf("(%s)(nil)", tname), nil
		}
		// well-known globals
		if g := lc.globalFor(t, typ); g != "" {
			return g, nil
		}
		if depth > 3 || time.Since(lc.start) > 40*time.Second {
			lc.approx = append(lc.approx, tname+": deep pointer replaced by nil")
			return fmt.Sprintf("(%s)(nil)", tname), nil
		}
		if st, ok := u.Elem().Underlying().(*types.Struct); ok {
			lc.nvar++
			name := fmt.Sprintf("p%d", lc.nvar)
			fmt.Fprintf(lc.pre, "\t%s := new(%s)\n", name, lc.typeStr(u.Elem()))
			// prefetch all fields (and slice/struct parts) in one solver round
			var pre []*Term
			for i := 0; i < st.NumFields(); i++ {
				cn, cs := x.fieldComp(u.Elem(), i)
				fv := ts.Select(x.comp(lc.st, cn, cs), t)
				pre = append(pre, lc.parts(fv, st.Field(i).Type(), 0)...)
			}
			lc.m.values(pre)
			for i := 0; i < st.NumFields(); i++ {
				cn, cs := x.fieldComp(u.Elem(), i)
				fv := ts.Select(x.comp(lc.st, cn, cs), t)
				e, err := lc.lit(fv, st.Field(i).Type(), depth+1)
				if err != nil {
					return "", fmt.Errorf("field %s: %v", st.Field(i).Name(), err)
				}
				fmt.Fprintf(lc.pre, "\t%s.%s = %s\n", name, st.Field(i).Name(), e)
			}
			return name, nil
		}
		// pointer to a non-struct cell
		cn, cs := x.cellComp(u.Elem())
		cell := ts.Select(x.comp(lc.st, cn, cs), t)
		e, err := lc.lit(cell, u.Elem(), depth+1)
		if err != nil {
			return "", err
		}
		lc.nvar++
		name := fmt.Sprintf("p%d", lc.nvar)
		fmt.Fprintf(lc.pre, "\t%s := new(%s)\n\t*%s = %s\n", name, lc.typeStr(u.Elem()), name, e)
		return name, nil
	case *types.Struct:
		si := w.structOf(typ)
		var parts []string
		for i := 0; i < u.NumFields(); i++ {
			e, err := lc.lit(w.field(si, t, i), u.Field(i).Type(), depth+1)
			if err != nil {
				return "", err
			}
			parts = append(parts, fmt.Sprintf("%s: %s", u.Field(i).Name(), e))
		}
		return fmt.Sprintf("%s{%s}", tname, strings.Join(parts, ", ")), nil
	case *types.Array:
		// only the first few elements are taken from the model
		lc.nvar++
		name := fmt.Sprintf("a%d", lc.nvar)
		fmt.Fprintf(lc.pre, "\tvar %s %s\n", name, tname)
		if t.sort == SInt {
			// array embedded in a struct: t is the reference of its row
			if _, isStruct := u.Elem().Underlying().(*types.Struct); isStruct {
				return name, nil
			}
			cn, cs := x.elemComp(u.Elem())
			t = ts.Select(x.comp(lc.st, cn, cs), t)
		}
		for i := int64(0); i < u.Len() && i < 4; i++ {
			e, err := lc.lit(ts.Select(t, ts.BV(uint64(i), 64)), u.Elem(), depth+1)
			if err != nil {
				break
			}
			fmt.Fprintf(lc.pre, "\t%s[%d] = %s\n", name, i, e)
		}
		return name, nil
	case *types.Map:
		v, err := lc.m.value(t)
		if err != nil {
			return "", err
		}
		r, _ := intOfSexp(v)
		if r == 0 {
			return fmt.Sprintf("%s(nil)", tname), nil
		}
		return "", fmt.Errorf("map values are not reconstructed from models")
	case *types.Signature:
		return "nil", nil
	}
	return "", fmt.Errorf("cannot build a %s from the model", tname)
}

// globalFor: if the model makes pointer t equal to a package-level pointer variable, use it.
func (lc *litCtx) globalFor(t *Term, typ types.Type) string {
	x := lc.m.x
	for name, g := range x.globalsSeen {
		if !types.Identical(g.Type().(*types.Pointer).Elem(), typ) {
			continue
		}
		gt, ok := lc.st.heap[name]
		if !ok || gt.sort != SInt {
			continue
		}
		v1, err1 := lc.m.value(gt)
		v2, err2 := lc.m.value(t)
		if err1 == nil && err2 == nil && v1.String() == v2.String() {
			return lc.qual(g.Pkg.Pkg) + dotIf(lc.qual(g.Pkg.Pkg)) + g.Name()
		}
	}
	return ""
}

func dotIf(s string) string {
	if s == "" {
		return ""
	}
	return "."
}

// ---- replay

type ReplayOutcome struct {
	File      string `json:"file"`
	Confirmed bool   `json:"confirmed"`
	Built     bool   `json:"built"`
	Reason    string `json:"reason,omitempty"`
	Output    string `json:"output,omitempty"`
	Inputs    string `json:"inputs,omitempty"`
}

func callExprFor(c *Contract, qual types.Qualifier) string {
	f := c.obj
	sig := f.Type().(*types.Signature)
	if sig.Recv() == nil {
		return f.Name()
	}
	rt := sig.Recv().Type()
	if p, ok := rt.(*types.Pointer); ok {
		return "(*" + types.TypeString(p.Elem(), qual) + ")." + f.Name()
	}
	return types.TypeString(rt, qual) + "." + f.Name()
}

// Replay extracts a model for a failed obligation and runs the contract
// function on the real code with those inputs.
func (e *Engine) Replay(r *Result, d *Discharged, outDir string) *ReplayOutcome {
	os.MkdirAll(outDir, 0o755)
	base := filepath.Join(outDir, sanitize(d.Obl.Name))
	out := &ReplayOutcome{File: base + "_test.go"}
	c := r.Contract
	x := r.Exec
	writeStub := func(reason string) *ReplayOutcome {
		out.Reason = reason
		var sb strings.Builder
		fmt.Fprintf(&sb, "// Failed obligation: %s\n// Contract: %s (%s:%d)\n// Position: %s\n// Solver: %s answered %s\n// No replayable input: %s\n//\n// Solver output:\n", d.Obl.Name, c.Name, c.File, c.Line, d.Obl.Pos, d.Res.Solver, d.Res.Status, reason)
		for _, l := range strings.Split(strings.TrimSpace(d.Res.Output), "\n") {
			sb.WriteString("//   " + l + "\n")
		}
		fmt.Fprintf(&sb, "// SMT file: %s\n", d.File)
		os.WriteFile(out.File, []byte(sb.String()), 0o644)
		return out
	}
	useInst := false
	if d.Res.Status != "sat" {
		if d.InstSat == "" {
			return writeStub("the solver gave no model (" + d.Res.Status + ")")
		}
		// the full query was not decided, but its ground-instantiated weakening has a
		// model: try it (the replay on the real code decides whether it is genuine)
		useInst = true
	}
	tp := e.typesPkg(c.PkgPath)
	imports := map[string]bool{}
	qual := func(p *types.Package) string {
		if p == tp {
			return ""
		}
		imports[p.Path()] = true
		return p.Name()
	}
	var pre strings.Builder
	st0 := &State{guard: x.w.ts.True(), heap: map[string]*Term{}, alloc: x.w.Const("alloc!0", SInt)}
	for n, s := range x.compSort {
		st0.heap[n] = x.w.Const(n+"!0", s)
	}
	ms := &modelSession{x: x, o: d.Obl, solver: d.Res.Solver, dir: outDir, cache: map[int]*sexp{}, inst: useInst}
	if useInst {
		ms.solver = d.InstSat
	}
	ms.preferSmall()
	lc := &litCtx{m: ms, qual: qual, pre: &pre, st: st0, imports: map[string]bool{}, start: time.Now()}
	var args []string
	h := c.harness
	for i, p := range h.Params {
		if p.Name() == "verif_call" {
			args = append(args, callExprFor(c, qual))
			continue
		}
		t, ok := x.inputs[i].(*Term)
		if !ok {
			return writeStub("input is not a term")
		}
		lit, err := lc.lit(t, p.Type(), 0)
		if err != nil {
			return writeStub(fmt.Sprintf("input %s: %v", p.Name(), err))
		}
		args = append(args, lit)
	}
	out.Inputs = strings.Join(args, ", ")
	var sb strings.Builder
	fmt.Fprintf(&sb, "//go:build verif\n\n// Replay of failed obligation %s\n// contract %s (%s:%d), position %s\n// model by %s\n\npackage %s\n\nimport (\n\t\"testing\"\n\tverifrt %q\n", d.Obl.Name, c.Name, c.File, c.Line, d.Obl.Pos, d.Res.Solver, tp.Name(), rtPath)
	for im := range lc.imports {
		fmt.Fprintf(&sb, "\t%q\n", im)
	}
	for im := range imports {
		if im != rtPath {
			fmt.Fprintf(&sb, "\t%q\n", im)
		}
	}
	sb.WriteString(")\n\nfunc TestVerifReplay(t *testing.T) {\n")
	sb.WriteString("\tdefer func() {\n\t\tif r := recover(); r != nil {\n\t\t\tif _, ok := r.(verifrt.AssumeFailed); ok {\n\t\t\t\tt.Skip(\"ASSUME-FAILED: model input violates a precondition on the real code\")\n\t\t\t}\n\t\t\tt.Fatalf(\"REPLAY-PANIC: %v\", r)\n\t\t}\n\t}()\n")
	sb.WriteString("\tverifrt.Failures = nil\n")
	sb.WriteString(pre.String())
	fmt.Fprintf(&sb, "\t%s(%s)\n", c.genName, strings.Join(args, ", "))
	sb.WriteString("\tif len(verifrt.Failures) > 0 {\n\t\tt.Fatalf(\"REPLAY-CONTRACT-FAILED: %v\", verifrt.Failures)\n\t}\n}\n")
	os.WriteFile(out.File, []byte(sb.String()), 0o644)
	out.Built = true
	ok, output := e.runReplayFile(c.PkgPath, out.File)
	out.Output = output
	out.Confirmed = ok
	if !ok {
		out.Reason = "replay did not fail on the real code"
	}
	return out
}

// runReplayFile runs a replay test through `go test -overlay` against the repo.
// Returns true if the test FAILED as predicted.
func (e *Engine) runReplayFile(pkgPath, testFile string) (bool, string) {
	sp := e.ssaPkgs[pkgPath]
	if sp == nil {
		return false, "no package"
	}
	var dir string
	for _, p := range e.pkgs {
		if p.PkgPath == pkgPath && len(p.GoFiles) > 0 {
			dir = filepath.Dir(p.GoFiles[0])
		}
	}
	if dir == "" {
		return false, "package dir not found"
	}
	ov := map[string]map[string]string{"Replace": {}}
	for f, text := range e.genFiles {
		tmp := filepath.Join(filepath.Dir(testFile), "gen_"+sanitize(f)+".go")
		os.WriteFile(tmp, []byte(text), 0o644)
		ov["Replace"][f] = tmp
	}
	ov["Replace"][filepath.Join(dir, "zz_verif_replay_test.go")] = testFile
	ovFile := testFile + ".overlay.json"
	data, _ := json.Marshal(ov)
	os.WriteFile(ovFile, data, 0o644)
	ctx, cancel := context.WithTimeout(context.Background(), 120*time.Second)
	defer cancel()
	script := fmt.Sprintf("ulimit -v 6000000; cd %q && exec go test -tags=verif -overlay %q -vet=off -timeout 60s -count=1 -run '^TestVerifReplay$' .", dir, ovFile)
	cmd := exec.CommandContext(ctx, "bash", "-c", script)
	cmd.Env = env()
	var buf bytes.Buffer
	cmd.Stdout = &buf
	cmd.Stderr = &buf
	err := cmd.Run()
	outp := buf.String()
	if len(outp) > 4000 {
		outp = outp[:4000]
	}
	failed := err != nil && (strings.Contains(outp, "REPLAY-PANIC") || strings.Contains(outp, "REPLAY-CONTRACT-FAILED") || strings.Contains(outp, "fatal error") || strings.Contains(outp, "panic:"))
	return failed, outp
}

var _ = ssa.NewConst

// preferSmall looks for a model in which every slice and string mentioned by
// the obligation is short (so that inputs can be written down); the bound is
// relaxed until the obligation is still satisfiable.
func (m *modelSession) preferSmall() {
	x := m.x
	ts := x.w.ts
	roots := append([]*Term{}, x.assumes[:m.o.nAssume]...)
	roots = append(roots, m.o.goal)
	seen := map[int]bool{}
	var slices, strs []*Term
	var rec func(t *Term)
	rec = func(t *Term) {
		if seen[t.id] {
			return
		}
		seen[t.id] = true
		if !t.open {
			if t.sort == SSlice && !(t.kind == kApp && t.op == "ite") {
				slices = append(slices, t)
			}
			if t.sort == SStr {
				strs = append(strs, t)
			}
		}
		for _, a := range t.args {
			rec(a)
		}
	}
	for _, r := range roots {
		rec(r)
	}
	if len(slices)+len(strs) == 0 || len(slices)+len(strs) > 400 {
		return
	}
	for _, k := range []uint64{4, 16, 64} {
		var pins []*Term
		for _, s := range slices {
			pins = append(pins, x.w.bvule(x.w.sCap(s), ts.BV(k, 64)))
		}
		for _, s := range strs {
			pins = append(pins, x.w.bvule(x.w.strLen(s), ts.BV(k, 64)))
		}
		saved := x.assumes
		n := m.o.nAssume
		x.assumes = append(append([]*Term{}, x.assumes[:n]...), pins...)
		o2 := *m.o
		o2.nAssume = len(x.assumes)
		text := x.smtTextMode(&o2, nil, m.inst)
		x.assumes = saved
		file := filepath.Join(m.dir, fmt.Sprintf("%s.small%d.smt2", sanitize(m.o.Name), k))
		os.WriteFile(file, []byte(text), 0o644)
		res := solveFile(file, 20, nil)
		if res.Status == "sat" {
			m.pins = pins
			m.solver = res.Solver
			return
		}
	}
}

// parts lists the scalar terms lit() will ask for when building a value of typ (shallow).
func (lc *litCtx) parts(t *Term, typ types.Type, depth int) []*Term {
	w := lc.m.x.w
	if depth > 2 {
		return nil
	}
	switch u := typ.Underlying().(type) {
	case *types.Basic:
		if t.sort == SStr {
			return []*Term{w.strLen(t)}
		}
		return []*Term{t}
	case *types.Slice:
		return []*Term{w.sArr(t), w.sOff(t), w.sLen(t), w.sCap(t)}
	case *types.Interface, *types.Pointer, *types.Map:
		return []*Term{t}
	case *types.Struct:
		si := w.structOf(typ)
		var out []*Term
		for i := 0; i < u.NumFields(); i++ {
			out = append(out, lc.parts(w.field(si, t, i), u.Field(i).Type(), depth+1)...)
		}
		return out
	}
	return nil
}
