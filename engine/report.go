package main

import (
	"encoding/json"
	"fmt"
	"os"
	"path/filepath"
	"regexp"
	"runtime"
	"sort"
	"strconv"
	"strings"
	"time"
)

type KnownFinding struct {
	Property   string `json:"property"`
	Obligation string `json:"obligation"` // exact name or regexp (prefix "re:")
	What       string `json:"what"`
	Status     string `json:"status"` // open | fixed
	Commit     string `json:"commit,omitempty"`
}

type KnownFile struct {
	Findings []KnownFinding `json:"findings"`
	Fixed    []string       `json:"fixed"` // "fixed: property=<id> <commit> <what>"
}

func loadKnown(path string) *KnownFile {
	kf := &KnownFile{}
	data, err := os.ReadFile(path)
	if err != nil {
		return kf
	}
	json.Unmarshal(data, kf)
	return kf
}

func (kf *KnownFile) match(prop, obl string) *KnownFinding {
	for i := range kf.Findings {
		f := &kf.Findings[i]
		if f.Status == "fixed" {
			continue
		}
		_ = prop // an obligation shared by several properties is the same finding in each of them
		if strings.HasPrefix(f.Obligation, "re:") {
			if ok, _ := regexp.MatchString(f.Obligation[3:], obl); ok {
				return f
			}
		} else if f.Obligation == obl {
			return f
		}
	}
	return nil
}

type Undecided struct {
	Obligations []string `json:"obligations"` // names or re: patterns never claimed
	Reasons     map[string]string
}

func loadUndecided(path string) map[string]string {
	out := map[string]string{}
	data, err := os.ReadFile(path)
	if err != nil {
		return out
	}
	json.Unmarshal(data, &out)
	return out
}

func matchUndecided(u map[string]string, name string) (string, bool) {
	if r, ok := u[name]; ok {
		return r, true
	}
	for k, r := range u {
		if strings.HasPrefix(k, "re:") {
			if ok, _ := regexp.MatchString(k[3:], name); ok {
				return r, true
			}
		}
	}
	return "", false
}

type checkOpts struct {
	prop    string
	tier    string
	only    string
	caseFilter string
	seed    int
	verbose bool
}

func runCheck(eng *Engine, o checkOpts, t0 time.Time) int {
	verifDir := envOr("VERIF_DIR", "/verif")
	outDir := filepath.Join(verifDir, "out", o.prop)
	os.RemoveAll(outDir)
	os.MkdirAll(outDir, 0o755)
	var cts []*Contract
	var trusted []string
	for _, c := range eng.contracts {
		if !contains(c.Properties, o.prop) || c.Kind == "iface" {
			continue
		}
		if c.Trusted {
			trusted = append(trusted, c.Name)
			continue
		}
		if o.only != "" && !strings.Contains(c.Name, o.only) {
			continue
		}
		cts = append(cts, c)
	}
	if len(cts) == 0 {
		fmt.Printf("govc: no contracts for property %s\n", o.prop)
		return 2
	}
	tGen := time.Now()
	var results []*Result
	var unsupported []string
	for _, c := range cts {
		rs := eng.Verify(c)
		if o.caseFilter != "" {
			var keep []*Result
			for _, r := range rs {
				if strings.Contains(r.Case, o.caseFilter) {
					keep = append(keep, r)
				}
			}
			rs = keep
		}
		// step clauses tagged [label@Cxx] are reported under Cxx only; a property
		// listed under `stepproperty` sees nothing else of the contract
		for _, r := range rs {
			var keep []*Obligation
			for _, ob := range r.Obls {
				tag := ""
				if i := strings.Index(ob.Name, "@C"); i >= 0 && i+4 <= len(ob.Name) && (ob.Kind == "step" || ob.Kind == "inv-init" || ob.Kind == "inv-step") {
					tag = ob.Name[i+1 : i+4]
				}
				switch {
				case tag != "":
					if tag == o.prop {
						keep = append(keep, ob)
					}
				case contains(c.StepProps, o.prop):
					// not a tagged step: belongs to the contract's own property
				default:
					keep = append(keep, ob)
				}
			}
			r.Obls = keep
		}
		for _, r := range rs {
			if r.Unsupported != "" {
				unsupported = append(unsupported, fmt.Sprintf("%s%s: %s", c.Name, r.Case, r.Unsupported))
			}
		}
		results = append(results, rs...)
	}
	genS := time.Since(tGen).Seconds()
	timeout := 30
	if o.tier == "thorough" {
		timeout = 180
	}
	workers := runtime.NumCPU() / 2
	if workers < 2 {
		workers = 2
	}
	verifHome := envOr("VERIF_HOME", "/verif")
	undec0 := loadUndecided(filepath.Join(verifHome, "undecided.json"))
	if o.tier != "thorough" {
		skipObligation = func(name string) bool { _, ok := matchUndecided(undec0, name); return ok }
	}
	known0 := loadKnown(filepath.Join(verifHome, "known_findings.json"))
	shortObligation = func(name string) bool { return known0.match(o.prop, name) != nil }
	tSolve := time.Now()
	ds := dischargeAll(results, filepath.Join(outDir, "smt"), timeout, workers)
	solveS := time.Since(tSolve).Seconds()

	known := loadKnown(filepath.Join(verifHome, "known_findings.json"))
	undec := loadUndecided(filepath.Join(verifHome, "undecided.json"))

	type row struct {
		d *Discharged
		r *Result
	}
	var rows []row
	for _, r := range results {
		for _, ob := range r.Obls {
			rows = append(rows, row{ds[ob], r})
		}
	}
	sort.Slice(rows, func(i, j int) bool { return rows[i].d.Obl.Name < rows[j].d.Obl.Name })

	nObl, nDis, nViol, nKnown, nUndec, nCover, nCoverOK := 0, 0, 0, 0, 0, 0, 0
	bySolver := map[string]int{}
	solverSec := 0.0
	var samples []any
	var violations []any
	var knownLines []string
	var undecided []string
	engineFault := false
	knownSeen := map[*KnownFinding]bool{}
	var staleMsgs []string
	for _, rw := range rows {
		d := rw.d
		name := d.Obl.Name
		solverSec += d.Res.Seconds
		if d.Obl.IsCover {
			nCover++
			if d.Res.Status == "sat" {
				nCoverOK++
			} else if d.Res.Status == "unsat" {
				fmt.Printf("ENGINE-FAULT vacuous: cover %s is unsatisfiable\n", name)
				engineFault = true
			}
			continue
		}
		if reason, ok := matchUndecided(undec, name); ok {
			nUndec++
			if o.tier == "thorough" {
				reason += " [attempted in this thorough run: " + d.Res.Status + "]"
			}
			undecided = append(undecided, name+": "+reason)
			continue
		}
		nObl++
		if d.Res.Status == "unsat" {
			nDis++
			bySolver[d.Res.Solver]++
			if len(samples) < 6 && (nObl%17 == 1 || len(rows) < 12) {
				samples = append(samples, map[string]any{"obligation": name, "solver": d.Res.Solver, "seconds": round3(d.Res.Seconds), "smt_bytes": d.Size, "pos": fmt.Sprintf("%s:%d", shortPath(d.Obl.Pos.Filename), d.Obl.Pos.Line)})
			}
			continue
		}
		// failed: retry unknowns once with a longer timeout before reporting
		if d.Res.Status == "unknown" && d.InstSat == "" {
			res2 := solveFile(d.File, timeout*3, nil)
			if res2.Status == "unsat" {
				nDis++
				bySolver[res2.Solver]++
				solverSec += res2.Seconds
				continue
			}
			if res2.Status == "sat" {
				d.Res = res2
			}
		}
		if kf := known.match(o.prop, name); kf != nil {
			nKnown++
			nObl-- // an open known finding is reported, not claimed as proved

			if !knownSeen[kf] {
				knownSeen[kf] = true
				knownLines = append(knownLines, fmt.Sprintf("KNOWN-FINDING: property=%s %s [obligation %s]", o.prop, kf.What, name))
			}
			continue
		}
		rp := eng.Replay(rw.r, d, filepath.Join(outDir, "replay"))
		if onlyRenames(rw.r.Exec.staleClauses) && !rp.Confirmed {
			// the contract's loop clauses no longer fit the code (e.g. a renamed
			// local): without them the obligation cannot be decided; only a
			// counterexample that replays on the real code counts
			nUndec++
			nObl--
			msg := fmt.Sprintf("%s: not decided, stale loop clause (%s)", name, strings.Join(rw.r.Exec.staleClauses, "; "))
			undecided = append(undecided, msg)
			staleMsgs = append(staleMsgs, msg)
			continue
		}
		nViol++
		suffix := ""
		if !rp.Confirmed {
			suffix = " no-failing-input-found"
		}
		fmt.Printf("VIOLATION property=%s replay=%s%s\n", o.prop, rp.File, suffix)
		fmt.Printf("  obligation %s (%s) at %s:%d: %s\n", name, d.Res.Status, shortPath(d.Obl.Pos.Filename), d.Obl.Pos.Line, firstLines(rp.Reason+" "+rp.Inputs, 2))
		violations = append(violations, map[string]any{"obligation": name, "status": d.Res.Status, "solver": d.Res.Solver, "replay": rp.File, "confirmed": rp.Confirmed, "inputs": rp.Inputs, "reason": rp.Reason})
	}
	for _, l := range knownLines {
		fmt.Println(l)
	}
	for _, u := range unsupported {
		fmt.Printf("UNDECIDED contract %s\n", u)
	}
	for _, m := range staleMsgs {
		fmt.Printf("UNDECIDED %s\n", m)
	}

	// evidence
	var fnames []string
	for _, c := range cts {
		fnames = append(fnames, c.Name)
	}
	assume := map[string]bool{}
	bounded := []string{}
	for _, r := range results {
		for n := range r.Exec.notes {
			assume[n] = true
		}
		bounded = append(bounded, r.Exec.bounded...)
	}
	var assumptions []string
	for n := range assume {
		assumptions = append(assumptions, n)
	}
	sort.Strings(assumptions)
	assumptions = append([]string{
		"go/packages + go/ssa (x/tools v0.29.0) extract the verified text from /repo's working tree with -tags=verif; SSA construction, this VC generator and its SMT encodings are trusted",
		"int/uint are 64-bit two's-complement bit-vectors (GOARCH=amd64); floats are IEEE-754 binary64 with RNE; no mathematical integers are used for program values",
		"verifGlobals(): package-level variables named there are initialised once and never reassigned",
		"a value of type ugo.Object (argument, element, result of an Object method) is nil or well formed: it never holds a typed nil pointer of one of the module's own object types",
		"goroutines, channels, select and recover are not modelled; sync locks are no-ops (sequential semantics)",
		"memory exhaustion and Go stack depth are not modelled",
	}, assumptions...)
	for _, t := range trusted {
		assumptions = append(assumptions, "trusted (assumed, not verified) contract: "+t)
	}
	if len(samples) == 0 && len(rows) > 0 {
		d := rows[0].d
		samples = append(samples, map[string]any{"obligation": d.Obl.Name, "status": d.Res.Status, "solver": d.Res.Solver})
	}
	seed, _ := strconv.Atoi(envOr("VERIF_SEED", "0"))
	ev := map[string]any{
		"property_id": o.prop,
		"tier":        o.tier,
		"seed":        seed,
		"level":       "proof",
		"wall_s":      round3(time.Since(t0).Seconds()),
		"violations":  nViol,
		"assumptions": assumptions,
		"coverage": map[string]any{
			"obligations":              nObl,
			"discharged":               nDis,
			"checker_cmd":              "govc check " + o.prop + " --tier " + o.tier + " (z3 4.8.12 | z3-new 5.1.0 | cvc5 1.0.3 raced per obligation, first definite answer)",
			"trusted_base":             []string{"go/ssa extraction", "govc VC generator", "z3 4.8.12", "z3 5.1.0", "cvc5 1.0.3", "stdlib contracts named in assumptions"},
			"functions_under_contract": fnames,
			"contracts":                len(cts),
			"case_runs":                len(results),
			"by_solver":                bySolver,
			"solver_seconds":           round3(solverSec),
			"vcgen_seconds":            round3(genS),
			"discharge_wall_seconds":   round3(solveS),
			"load_seconds":             round3(eng.loadSeconds),
			"covers":                   nCover,
			"covers_reachable":         nCoverOK,
			"covers_note":              "one vacuity guard per case run: the assumptions in force at the call under verification are checked for satisfiability; sat = reachable, unknown (quantified preconditions) = not refuted within 4 s, unsat would abort the check as an engine fault",
			"known_findings_reproduced": nKnown,
			"explanation":              "obligations counts the obligations claimed as proved on this run (those of open known findings and of undecided.json are listed separately and not claimed)",
			"undecided":                undecided,
			"undecided_contracts":      unsupported,
			"bounded":                  bounded,
			"samples":                  samples,
			"violations":               violations,
		},
	}
	os.MkdirAll(filepath.Join(verifDir, "evidence"), 0o755)
	data, _ := json.MarshalIndent(ev, "", " ")
	os.WriteFile(filepath.Join(verifDir, "evidence", o.prop+".json"), data, 0o644)
	fmt.Printf("property %s: %d obligations, %d discharged, %d violations, %d known, %d undecided, %d/%d covers; %d contracts (%d case runs); load %.1fs vcgen %.1fs solve %.1fs\n",
		o.prop, nObl, nDis, nViol, nKnown, nUndec, nCoverOK, nCover, len(cts), len(results), eng.loadSeconds, genS, solveS)
	if engineFault {
		return 2
	}
	if nViol > 0 {
		return 1
	}
	if nObl == 0 {
		fmt.Println("ENGINE-FAULT: zero obligations")
		return 2
	}
	return 0
}

func round3(f float64) float64 { return float64(int(f*1000+0.5)) / 1000 }

// onlyRenames: there are stale loop clauses and all of them are stale because
// a variable they name no longer exists (a renamed or removed local), not
// because the loop itself changed shape.
func onlyRenames(stale []string) bool {
	if len(stale) == 0 {
		return false
	}
	for _, s := range stale {
		if !strings.Contains(s, "unknown identifier") && !strings.Contains(s, "not found at loop header") {
			return false
		}
	}
	return true
}
