package main

// Package-level tables declared `//@ const Name` in a contract file: their
// value is read mechanically from the initialiser in /repo's source (arrays and
// slices of constants, nested), and assumed at the start of every contract
// function of the package. A table that is assigned anywhere outside package
// initialisation is rejected.

import (
	"fmt"
	"go/ast"
	"go/constant"
	"go/token"
	"go/types"
	"strings"

	"golang.org/x/tools/go/packages"
	"golang.org/x/tools/go/ssa"
)

type constTable struct {
	name string
	pkg  *packages.Package
	v    *types.Var
	lit  ast.Expr
	glob *ssa.Global
}

func (e *Engine) resolveConstTables() error {
	for pkgPath, names := range e.constNames {
		var pkg *packages.Package
		for _, p := range e.pkgs {
			if p.PkgPath == pkgPath {
				pkg = p
			}
		}
		if pkg == nil {
			return fmt.Errorf("const tables: package %s not loaded", pkgPath)
		}
		homePkg := pkg
		for _, name := range names {
			// `//@ const q.Name`: a table of another package of the module (q is
			// that package's name); its value is assumed in this package's contracts.
			pkg := homePkg
			if k := strings.Index(name, "."); k >= 0 {
				qual := name[:k]
				name = name[k+1:]
				pkg = nil
				for _, p := range e.pkgs {
					if p.Name == qual && strings.HasPrefix(p.PkgPath, modPath) {
						pkg = p
					}
				}
				if pkg == nil {
					return fmt.Errorf("const table %s.%s: package not loaded", qual, name)
				}
			}
			sp := e.ssaPkgs[pkg.PkgPath]
			obj, ok := pkg.Types.Scope().Lookup(name).(*types.Var)
			if !ok {
				return fmt.Errorf("const table %s: not a package-level variable", name)
			}
			ct := &constTable{name: name, pkg: pkg, v: obj}
			for _, f := range pkg.Syntax {
				for _, d := range f.Decls {
					gd, ok := d.(*ast.GenDecl)
					if !ok || gd.Tok != token.VAR {
						continue
					}
					for _, s := range gd.Specs {
						vs := s.(*ast.ValueSpec)
						for i, id := range vs.Names {
							if pkg.TypesInfo.Defs[id] == obj && i < len(vs.Values) {
								ct.lit = vs.Values[i]
							}
						}
					}
				}
			}
			if ct.lit == nil {
				return fmt.Errorf("const table %s: no initialiser found", name)
			}
			g, ok := sp.Members[name].(*ssa.Global)
			if !ok {
				return fmt.Errorf("const table %s: no SSA global", name)
			}
			ct.glob = g
			if where := e.assignedOutsideInit(g); where != "" {
				return fmt.Errorf("const table %s is assigned in %s", name, where)
			}
			e.constTabs[pkgPath] = append(e.constTabs[pkgPath], ct)
		}
	}
	return nil
}

func rootGlobal(v ssa.Value) *ssa.Global {
	for {
		switch t := v.(type) {
		case *ssa.Global:
			return t
		case *ssa.FieldAddr:
			v = t.X
		case *ssa.IndexAddr:
			v = t.X
		default:
			return nil
		}
	}
}

func (e *Engine) assignedOutsideInit(g *ssa.Global) string {
	for _, sp := range e.prog.AllPackages() {
		if len(sp.Pkg.Path()) < len(modPath) || sp.Pkg.Path()[:len(modPath)] != modPath {
			continue
		}
		for _, m := range sp.Members {
			fn, ok := m.(*ssa.Function)
			if !ok {
				continue
			}
			var fns []*ssa.Function
			fns = append(fns, fn)
			fns = append(fns, fn.AnonFuncs...)
			for _, f := range fns {
				if f.Name() == "init" || f.Synthetic != "" {
					continue
				}
				for _, b := range f.Blocks {
					for _, ins := range b.Instrs {
						if st, ok := ins.(*ssa.Store); ok && rootGlobal(st.Addr) == g {
							return f.String()
						}
					}
				}
			}
		}
		// methods
		for _, m := range sp.Members {
			tn, ok := m.(*ssa.Type)
			if !ok {
				continue
			}
			for _, t := range []types.Type{tn.Type(), types.NewPointer(tn.Type())} {
				ms := e.prog.MethodSets.MethodSet(t)
				for i := 0; i < ms.Len(); i++ {
					f := e.prog.MethodValue(ms.At(i))
					if f == nil {
						continue
					}
					for _, b := range f.Blocks {
						for _, ins := range b.Instrs {
							if st, ok := ins.(*ssa.Store); ok && rootGlobal(st.Addr) == g {
								return f.String()
							}
						}
					}
				}
			}
		}
	}
	return ""
}

// assumeConstTables states, in the initial state, the value of every const
// table of the package.
func (x *Exec) assumeConstTables(st *State, pkgPath string) {
	defer func() {
		if len(x.constRefs) > 1 {
			x.assume(x.w.ts.App("distinct", SBool, x.constRefs...))
		}
	}()
	for _, ct := range x.eng.constTabs[pkgPath] {
		val := x.constExpr(st, ct, ct.lit, ct.v.Type())
		n, s := x.globComp(ct.glob)
		x.comp(st, n, s)
		// the initial value of the variable IS the table (definition, not just a fact)
		st.heap[n] = val
		x.note("const table %s.%s: value read from its initialiser; it is not assigned outside package initialisation (checked on the SSA); element writes through slices of it, and inputs aliasing its rows, are assumed absent", ct.pkg.Types.Name(), ct.name)
	}
}

func (x *Exec) constExpr(st *State, ct *constTable, e ast.Expr, typ types.Type) *Term {
	ts := x.w.ts
	info := ct.pkg.TypesInfo
	if tv, ok := info.Types[e]; ok && tv.Value != nil {
		c := ssa.NewConst(tv.Value, typ)
		return x.constVal(c).(*Term)
	}
	cl, ok := e.(*ast.CompositeLit)
	if !ok {
		unsup("const table %s: unsupported initialiser expression %T", ct.name, e)
	}
	elemsOf := func(elemT types.Type, zeroRow *Term) (*Term, int64) {
		row := zeroRow
		next := int64(0)
		maxIdx := int64(-1)
		for _, el := range cl.Elts {
			var ve ast.Expr = el
			if kv, ok := el.(*ast.KeyValueExpr); ok {
				ktv, ok := info.Types[kv.Key]
				if !ok || ktv.Value == nil {
					unsup("const table %s: non-constant key", ct.name)
				}
				k, _ := constant.Int64Val(constant.ToInt(ktv.Value))
				next = k
				ve = kv.Value
			}
			v := x.constExpr(st, ct, ve, elemT)
			row = ts.Store(row, ts.BV(uint64(next), 64), v)
			if next > maxIdx {
				maxIdx = next
			}
			next++
		}
		return row, maxIdx + 1
	}
	switch u := typ.Underlying().(type) {
	case *types.Array:
		zero := x.w.zeroOf(typ)
		row, _ := elemsOf(u.Elem(), zero)
		return row
	case *types.Slice:
		rowSort := SArr(SBV(64), x.w.sortOf(u.Elem()))
		zero := ts.App("(as const "+string(rowSort)+")", rowSort, x.w.zeroOf(u.Elem()))
		row, n := elemsOf(u.Elem(), zero)
		ref := x.w.Fresh("ref_const_"+ct.name, SInt)
		x.constRefs = append(x.constRefs, ref)
		x.assume(ts.And(x.w.intLt(ts.IntLit(0), ref), x.w.intLe(ref, st.alloc)))
		cn, cs := x.elemComp(u.Elem())
		h := x.comp(st, cn, cs)
		st.heap[cn] = ts.Store(h, ref, row)
		ln := ts.BV(uint64(n), 64)
		return x.w.mkSlice(ref, ts.BV(0, 64), ln, ln)
	}
	unsup("const table %s: unsupported type %s", ct.name, typ)
	return nil
}
