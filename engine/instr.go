package main

import (
	"fmt"
	"strings"
	"go/token"
	"go/types"

	"golang.org/x/tools/go/ssa"
)

func (x *Exec) step(fr *Frame, ins ssa.Instruction, st *State) {
	ts := x.w.ts
	switch in := ins.(type) {
	case *ssa.DebugRef:
		return
	case *ssa.Alloc:
		t := in.Type().(*types.Pointer).Elem()
		r := x.allocRef(st, in.Comment)
		a := &Addr{root: rCell, ref: r, cellT: t, curT: t}
		// (rows of embedded arrays first: zeroing the struct writes through them)
		x.allocEmbeddedArrays(st, r, t)
		x.store(st, a, x.w.zeroOf(t))
		fr.vals[in] = r
		if _, isStruct := t.Underlying().(*types.Struct); !isStruct && x.isSpecFn(fr.fn) {
			cn, cs := x.cellComp(t)
			x.specCells = append(x.specCells, specCell{cn, cs, r})
		}
	case *ssa.BinOp:
		fr.vals[in] = x.binop(fr, in, st)
	case *ssa.UnOp:
		fr.vals[in] = x.unop(fr, in, st)
	case *ssa.Call:
		res := x.call(fr, in, &in.Call, st)
		if res != nil {
			fr.vals[in] = res
		}
	case *ssa.ChangeInterface:
		fr.vals[in] = x.get(fr, in.X)
	case *ssa.ChangeType:
		v := x.get(fr, in.X)
		if t, ok := v.(*Term); ok {
			from, to := x.w.sortOf(in.X.Type()), x.w.sortOf(in.Type())
			if from != to {
				// struct-to-struct conversion between identical underlying types
				fs, ok1 := in.X.Type().Underlying().(*types.Struct)
				_, ok2 := in.Type().Underlying().(*types.Struct)
				if !ok1 || !ok2 {
					unsup("ChangeType between sorts %s and %s", from, to)
				}
				si, so := x.w.structOf(in.X.Type()), x.w.structOf(in.Type())
				vals := make([]*Term, fs.NumFields())
				for i := range vals {
					vals[i] = x.w.field(si, t, i)
				}
				v = x.w.mkStruct(so, vals)
			}
		}
		fr.vals[in] = v
	case *ssa.Convert:
		fr.vals[in] = x.convert(fr, in, st)
	case *ssa.MultiConvert:
		unsup("MultiConvert")
	case *ssa.Extract:
		tup, ok := x.get(fr, in.Tuple).(Tuple)
		if !ok {
			unsup("extract from non-tuple")
		}
		fr.vals[in] = tup[in.Index]
	case *ssa.Field:
		v := x.term(fr, in.X)
		si := x.w.structOf(in.X.Type())
		if _, isArr := in.Type().Underlying().(*types.Array); isArr {
			unsup("array field of a struct value used by value")
		}
		fr.vals[in] = x.w.field(si, v, in.Field)
	case *ssa.FieldAddr:
		fr.vals[in] = x.fieldAddr(fr, in, st)
	case *ssa.Index:
		fr.vals[in] = x.index(fr, in, st)
	case *ssa.IndexAddr:
		fr.vals[in] = x.indexAddr(fr, in, st)
	case *ssa.Lookup:
		fr.vals[in] = x.lookup(fr, in, st)
	case *ssa.MakeInterface:
		v := x.get(fr, in.X)
		var t *Term
		switch vv := v.(type) {
		case *Term:
			t = vv
		case *Addr:
			t = x.addrToRef(vv)
		case *FuncRef, *Closure:
			t = x.w.Fresh("funcval", SInt)
		default:
			unsup("MakeInterface of %T", v)
		}
		fr.vals[in] = x.w.box(in.X.Type(), t)
	case *ssa.MakeClosure:
		c := &Closure{fn: in.Fn.(*ssa.Function)}
		for _, b := range in.Bindings {
			c.bindings = append(c.bindings, x.get(fr, b))
		}
		fr.vals[in] = c
	case *ssa.MakeMap:
		mt := in.Type().Underlying().(*types.Map)
		r := x.allocRef(st, "map")
		dn, vn, ln, ks, vs := x.mapComps(mt)
		d := x.comp(st, dn, SArr(SInt, SArr(ks, SBool)))
		st.heap[dn] = ts.Store(d, r, ts.App("(as const "+string(SArr(ks, SBool))+")", SArr(ks, SBool), ts.False()))
		x.comp(st, vn, SArr(SInt, SArr(ks, vs)))
		l := x.comp(st, ln, SArr(SInt, SBV(64)))
		st.heap[ln] = ts.Store(l, r, ts.BV(0, 64))
		if in.Reserve != nil {
			n := x.toInt64(x.term(fr, in.Reserve), in.Reserve.Type())
			// a negative size hint is treated as 0 by the runtime: no panic
			x.allocSize(st, in, n, 16)
		}
		fr.vals[in] = r
	case *ssa.MakeSlice:
		fr.vals[in] = x.makeSlice(fr, in, st)
	case *ssa.MakeChan:
		fr.vals[in] = x.allocRef(st, "chan")
	case *ssa.MapUpdate:
		x.mapUpdate(fr, in, st)
	case *ssa.Next:
		fr.vals[in] = x.next(fr, in, st)
	case *ssa.Range:
		xv := x.term(fr, in.X)
		if mt, ok := in.X.Type().Underlying().(*types.Map); ok {
			it := &mapIter{m: xv, mt: mt, id: x.w.Fresh("iter", SInt)}
			dn, _, _, ks, _ := x.mapComps(mt)
			it.d0 = ts.Select(x.comp(st, dn, SArr(SInt, SArr(ks, SBool))), xv)
			vn, cn, _ := x.visComps(mt)
			vs := SArr(SInt, SArr(ks, SBool))
			x.compSort[vn], x.compSort[cn] = vs, SArr(SInt, SInt)
			st.heap[vn] = ts.Store(x.comp(st, vn, vs), it.id, ts.App("(as const "+string(SArr(ks, SBool))+")", SArr(ks, SBool), ts.False()))
			st.heap[cn] = ts.Store(x.comp(st, cn, SArr(SInt, SInt)), xv, it.id)
			fr.vals[in] = it
		} else {
			fr.vals[in] = &mapIter{str: xv, isStr: true}
		}
	case *ssa.Slice:
		fr.vals[in] = x.slice(fr, in, st)
	case *ssa.SliceToArrayPointer:
		unsup("SliceToArrayPointer")
	case *ssa.Store:
		a := x.toAddr(x.get(fr, in.Addr), in.Addr.Type())
		x.nilCheckAddr(st, in, a, in.Addr)
		v := x.get(fr, in.Val)
		var t *Term
		switch vv := v.(type) {
		case *Term:
			t = vv
		case *Addr:
			t = x.addrToRef(vv)
		case *FuncRef:
			t = x.w.Const("fn_"+sanitize(vv.fn.String()), SInt)
		case *Closure:
			t = x.w.Fresh("closure", SInt)
		default:
			unsup("store of %T", v)
		}
		x.store(st, a, t)
	case *ssa.TypeAssert:
		fr.vals[in] = x.typeAssert(fr, in, st)
	case *ssa.Defer:
		if isNoopCall(&in.Call) {
			return
		}
		fr.defers = append(fr.defers, in)
		if fr.deferGuard == nil {
			fr.deferGuard = map[*ssa.Defer]*Term{}
		}
		fr.deferGuard[in] = st.guard
	case *ssa.RunDefers:
		for i := len(fr.defers) - 1; i >= 0; i-- {
			d := fr.defers[i]
			// the deferred call runs only on paths that executed the defer statement
			reg := fr.deferGuard[d]
			sub := st.clone()
			sub.guard = ts.And(st.guard, reg)
			if sub.guard.isFalse() {
				continue
			}
			x.call(fr, d, &d.Call, sub)
			other := st.clone()
			other.guard = ts.And(st.guard, ts.Not(reg))
			if other.guard.isFalse() {
				st.heap, st.alloc, st.guard, st.epoch = sub.heap, sub.alloc, sub.guard, sub.epoch
				continue
			}
			m := x.mergeStatesRel([]*Term{sub.guard, other.guard}, []*Term{reg, ts.Not(reg)}, []*State{sub, other})
			st.heap, st.alloc, st.guard, st.epoch = m.heap, m.alloc, m.guard, m.epoch
		}
	case *ssa.Go:
		unsup("go statement")
	case *ssa.Send, *ssa.Select:
		unsup("channel operation")
	default:
		unsup("instruction %T", ins)
	}
}

func isNoopCall(c *ssa.CallCommon) bool {
	if f := c.StaticCallee(); f != nil {
		switch f.String() {
		case "(*sync.Mutex).Lock", "(*sync.Mutex).Unlock", "(*sync.RWMutex).Lock", "(*sync.RWMutex).Unlock",
			"(*sync.RWMutex).RLock", "(*sync.RWMutex).RUnlock":
			return true
		}
	}
	return false
}

func exprText(x *Exec, v ssa.Value) string {
	if v == nil {
		return ""
	}
	if n := v.Name(); n != "" {
		if c, ok := v.(*ssa.Const); ok {
			return c.Value.String()
		}
		if p, ok := v.(*ssa.Parameter); ok {
			return p.Name()
		}
		// try the debug name of the variable
		if ph, ok := v.(*ssa.Phi); ok && ph.Comment != "" {
			return ph.Comment
		}
	}
	return ""
}

func (x *Exec) nilCheckAddr(st *State, ins ssa.Instruction, a *Addr, src ssa.Value) {
	ts := x.w.ts
	if a.nilWhen != nil {
		x.safety(st, "nil", ins, describe(src), ts.Not(a.nilWhen))
	}
	switch a.root {
	case rField, rCell:
		if a.ref.kind == kLeaf && len(a.ref.op) > 4 && a.ref.op[:4] == "ref_" {
			return // fresh allocation
		}
		x.safety(st, "nil", ins, describe(src), ts.Not(ts.Eq(a.ref, ts.IntLit(0))))
	}
}

func describe(v ssa.Value) string {
	switch t := v.(type) {
	case *ssa.Parameter:
		return t.Name()
	case *ssa.FieldAddr:
		st := t.X.Type().Underlying().(*types.Pointer).Elem().Underlying().(*types.Struct)
		return describe(t.X) + "." + st.Field(t.Field).Name()
	case *ssa.Field:
		st := t.X.Type().Underlying().(*types.Struct)
		return describe(t.X) + "." + st.Field(t.Field).Name()
	case *ssa.IndexAddr:
		return describe(t.X) + "[" + describe(t.Index) + "]"
	case *ssa.Index:
		return describe(t.X) + "[" + describe(t.Index) + "]"
	case *ssa.UnOp:
		if t.Op == token.MUL {
			return describe(t.X)
		}
		return t.Op.String() + describe(t.X)
	case *ssa.Const:
		if t.Value == nil {
			return "nil"
		}
		return t.Value.String()
	case *ssa.Phi:
		if t.Comment != "" {
			return t.Comment
		}
	case *ssa.Global:
		return t.Name()
	case *ssa.Alloc:
		if t.Comment != "" {
			return t.Comment
		}
	case *ssa.Convert:
		return describe(t.X)
	case *ssa.ChangeType:
		return describe(t.X)
	case *ssa.BinOp:
		return describe(t.X) + t.Op.String() + describe(t.Y)
	case *ssa.Call:
		if f := t.Call.StaticCallee(); f != nil {
			return f.Name() + "()"
		}
		if b, ok := t.Call.Value.(*ssa.Builtin); ok {
			s := b.Name() + "("
			for i, a := range t.Call.Args {
				if i > 0 {
					s += ","
				}
				s += describe(a)
			}
			return s + ")"
		}
		if t.Call.IsInvoke() {
			return describe(t.Call.Value) + "." + t.Call.Method.Name() + "()"
		}
	case *ssa.Extract:
		return describe(t.Tuple) + fmt.Sprintf("#%d", t.Index)
	case *ssa.TypeAssert:
		return describe(t.X) + ".(" + shortTypeString(t.AssertedType) + ")"
	case *ssa.Slice:
		return describe(t.X) + "[:]"
	case *ssa.FreeVar:
		return t.Name()
	case *ssa.Lookup:
		return describe(t.X) + "[" + describe(t.Index) + "]"
	}
	return "_"
}

// toInt64 widens an integer term of Go type t to 64 bits.
func (x *Exec) toInt64(v *Term, t types.Type) *Term {
	w := v.sort.bvWidth()
	if w == 64 {
		return v
	}
	if w == 0 {
		unsup("toInt64 on %s", v.sort)
	}
	if isSigned(t) {
		return x.w.ts.App(fmt.Sprintf("(_ sign_extend %d)", 64-w), SBV(64), v)
	}
	return x.w.ts.App(fmt.Sprintf("(_ zero_extend %d)", 64-w), SBV(64), v)
}

func (x *Exec) bvOp(op string, a, b *Term) *Term { return x.w.ts.App(op, a.sort, a, b) }

func (x *Exec) binop(fr *Frame, in *ssa.BinOp, st *State) Value {
	ts := x.w.ts
	xt := in.X.Type()
	// interior address compared with nil
	if in.Op == token.EQL || in.Op == token.NEQ {
		va, vb := x.get(fr, in.X), x.get(fr, in.Y)
		var ad *Addr
		if a, ok := va.(*Addr); ok && isNilConst(in.Y) {
			ad = a
		} else if b, ok := vb.(*Addr); ok && isNilConst(in.X) {
			ad = b
		}
		if ad != nil {
			isNil := ts.False()
			if ad.nilWhen != nil {
				isNil = ad.nilWhen
			}
			if in.Op == token.NEQ {
				return ts.Not(isNil)
			}
			return isNil
		}
	}
	// pointer / func / interface comparisons
	a, b := x.term(fr, in.X), x.term(fr, in.Y)
	if in.Op == token.EQL || in.Op == token.NEQ {
		var eq *Term
		switch {
		case a.sort == SF64 || a.sort == SF32:
			eq = ts.App("fp.eq", SBool, a, b)
		case a.sort == SIface:
			eq = x.ifaceEq(st, in, a, b)
		case a.sort == SSlice:
			// only comparison with nil is legal
			if isNilConst(in.Y) {
				eq = ts.Eq(x.w.sArr(a), ts.IntLit(0))
			} else {
				eq = ts.Eq(x.w.sArr(b), ts.IntLit(0))
			}
		default:
			if _, ok := xt.Underlying().(*types.Struct); ok {
				eq = x.structEq(a, b, xt)
			} else if _, ok := xt.Underlying().(*types.Array); ok {
				unsup("array comparison")
			} else {
				eq = ts.Eq(a, b)
			}
		}
		if in.Op == token.NEQ {
			return ts.Not(eq)
		}
		return eq
	}
	switch {
	case a.sort == SBool:
		unsup("bool binop %s", in.Op)
	case a.sort == SStr:
		switch in.Op {
		case token.ADD:
			r := x.w.Fun("str_concat", SStr, a, b)
			x.assume(ts.Eq(x.w.strLen(r), x.bvOp("bvadd", x.w.strLen(a), x.w.strLen(b))))
			return r
		case token.LSS:
			return x.strLt(a, b)
		case token.GTR:
			return x.strLt(b, a)
		case token.LEQ:
			return ts.Not(x.strLt(b, a))
		case token.GEQ:
			return ts.Not(x.strLt(a, b))
		}
	case a.sort == SF64 || a.sort == SF32:
		rne := ts.Leaf("RNE", SRM)
		switch in.Op {
		case token.ADD:
			return ts.App("fp.add", a.sort, rne, a, b)
		case token.SUB:
			return ts.App("fp.sub", a.sort, rne, a, b)
		case token.MUL:
			return ts.App("fp.mul", a.sort, rne, a, b)
		case token.QUO:
			return ts.App("fp.div", a.sort, rne, a, b)
		case token.LSS:
			return ts.App("fp.lt", SBool, a, b)
		case token.LEQ:
			return ts.App("fp.leq", SBool, a, b)
		case token.GTR:
			return ts.App("fp.gt", SBool, a, b)
		case token.GEQ:
			return ts.App("fp.geq", SBool, a, b)
		}
	case a.sort.bvWidth() > 0:
		signed := isSigned(xt)
		w := a.sort.bvWidth()
		switch in.Op {
		case token.ADD:
			return x.bvOp("bvadd", a, b)
		case token.SUB:
			return x.bvOp("bvsub", a, b)
		case token.MUL:
			return x.bvOp("bvmul", a, b)
		case token.QUO, token.REM:
			x.safety(st, "div", in, describe(in.X)+in.Op.String()+describe(in.Y), ts.Not(ts.Eq(b, ts.BV(0, w))))
			op := map[bool]map[token.Token]string{true: {token.QUO: "bvsdiv", token.REM: "bvsrem"}, false: {token.QUO: "bvudiv", token.REM: "bvurem"}}[signed][in.Op]
			return x.bvOp(op, a, b)
		case token.AND:
			return x.bvOp("bvand", a, b)
		case token.OR:
			return x.bvOp("bvor", a, b)
		case token.XOR:
			return x.bvOp("bvxor", a, b)
		case token.AND_NOT:
			return x.bvOp("bvand", a, ts.App("bvnot", b.sort, b))
		case token.SHL, token.SHR:
			yt := in.Y.Type()
			bw := b.sort.bvWidth()
			if isSigned(yt) {
				x.safety(st, "shift", in, describe(in.X)+in.Op.String()+describe(in.Y), x.w.bvsle(ts.BV(0, bw), b))
			}
			// bring count to width w, saturating
			var cnt *Term
			switch {
			case bw == w:
				cnt = b
			case bw < w:
				cnt = ts.App(fmt.Sprintf("(_ zero_extend %d)", w-bw), SBV(w), b)
			default:
				big := x.w.bvule(ts.BV(uint64(w), bw), b)
				cnt = ts.Ite(big, ts.BV(uint64(w), w), ts.App(fmt.Sprintf("(_ extract %d 0)", w-1), SBV(w), b))
			}
			if in.Op == token.SHL {
				return x.bvOp("bvshl", a, cnt)
			}
			if signed {
				return x.bvOp("bvashr", a, cnt)
			}
			return x.bvOp("bvlshr", a, cnt)
		case token.LSS, token.LEQ, token.GTR, token.GEQ:
			op := map[bool]map[token.Token]string{
				true:  {token.LSS: "bvslt", token.LEQ: "bvsle", token.GTR: "bvsgt", token.GEQ: "bvsge"},
				false: {token.LSS: "bvult", token.LEQ: "bvule", token.GTR: "bvugt", token.GEQ: "bvuge"},
			}[signed][in.Op]
			return ts.App(op, SBool, a, b)
		}
	}
	unsup("binop %s on %s", in.Op, a.sort)
	return nil
}

func isNilConst(v ssa.Value) bool {
	c, ok := v.(*ssa.Const)
	return ok && c.Value == nil
}

func (x *Exec) structEq(a, b *Term, t types.Type) *Term {
	ts := x.w.ts
	u := t.Underlying().(*types.Struct)
	si := x.w.structOf(t)
	var cs []*Term
	for i := 0; i < u.NumFields(); i++ {
		fa, fb := x.w.field(si, a, i), x.w.field(si, b, i)
		ft := u.Field(i).Type()
		switch {
		case fa.sort == SF64 || fa.sort == SF32:
			cs = append(cs, ts.App("fp.eq", SBool, fa, fb))
		case fa.sort == SIface:
			cs = append(cs, ts.Eq(fa, fb))
		default:
			if _, ok := ft.Underlying().(*types.Struct); ok {
				cs = append(cs, x.structEq(fa, fb, ft))
			} else {
				cs = append(cs, ts.Eq(fa, fb))
			}
		}
	}
	return ts.And(cs...)
}

// ifaceEq: Go interface equality. Boxed floats compare with fp.eq; comparing
// uncomparable dynamic types panics (not modelled: recorded as assumption).
func (x *Exec) ifaceEq(st *State, in ssa.Instruction, a, b *Term) *Term {
	ts := x.w.ts
	// common case: comparison against nil or a boxed pointer
	if a.kind == kLeaf || b.kind == kLeaf {
		return ts.Eq(a, b)
	}
	x.note("interface == on dynamic values modelled as structural equality (float payloads and uncomparable types not distinguished)")
	return ts.Eq(a, b)
}

func (x *Exec) unop(fr *Frame, in *ssa.UnOp, st *State) Value {
	ts := x.w.ts
	switch in.Op {
	case token.MUL:
		v := x.get(fr, in.X)
		a := x.toAddr(v, in.X.Type())
		x.nilCheckAddr(st, in, a, in.X)
		if row, ok := x.arrayFieldRow(st, a); ok {
			at := a.curT.Underlying().(*types.Array)
			if _, isStruct := at.Elem().Underlying().(*types.Struct); isStruct {
				unsup("embedded array of structs loaded by value")
			}
			// the array value is the contents of its row
			en, es := x.elemComp(at.Elem())
			return ts.Select(x.comp(st, en, es), row)
		}
		r := x.load(st, a)
		// memory-model axiom: every cell holds a valid value of its type
		x.assume(x.w.validFacts(r, in.Type(), st.alloc, 0))
		if a.root == rField && len(a.path) == 0 {
			n, s := x.fieldComp(a.structT, a.field)
			x.baseValid(x.comp(st, n, s), in.Type(), a.ref)
		} else if a.root == rElem && len(a.path) == 0 {
			n, s := x.elemComp(a.elemT)
			x.baseValid(x.comp(st, n, s), in.Type(), a.arr, a.idx)
		}
		return r
	case token.NOT:
		return ts.Not(x.term(fr, in.X))
	case token.SUB:
		a := x.term(fr, in.X)
		if a.sort == SF64 || a.sort == SF32 {
			return ts.App("fp.neg", a.sort, a)
		}
		return ts.App("bvneg", a.sort, a)
	case token.XOR:
		a := x.term(fr, in.X)
		return ts.App("bvnot", a.sort, a)
	case token.ARROW:
		unsup("channel receive")
	}
	unsup("unop %s", in.Op)
	return nil
}

func (x *Exec) convert(fr *Frame, in *ssa.Convert, st *State) Value {
	ts := x.w.ts
	from, to := in.X.Type(), in.Type()
	v := x.term(fr, in.X)
	fs, tsrt := x.w.sortOf(from), x.w.sortOf(to)
	rne := ts.Leaf("RNE", SRM)
	rtz := ts.Leaf("RTZ", SRM)
	switch {
	case isInteger(from) && isInteger(to):
		fw, tw := fs.bvWidth(), tsrt.bvWidth()
		switch {
		case fw == tw:
			return v
		case fw > tw:
			return ts.App(fmt.Sprintf("(_ extract %d 0)", tw-1), tsrt, v)
		case isSigned(from):
			return ts.App(fmt.Sprintf("(_ sign_extend %d)", tw-fw), tsrt, v)
		default:
			return ts.App(fmt.Sprintf("(_ zero_extend %d)", tw-fw), tsrt, v)
		}
	case isInteger(from) && isFloat(to):
		eb, sb := 11, 53
		if tsrt == SF32 {
			eb, sb = 8, 24
		}
		if isSigned(from) {
			return ts.App(fmt.Sprintf("(_ to_fp %d %d)", eb, sb), tsrt, rne, v)
		}
		return ts.App(fmt.Sprintf("(_ to_fp_unsigned %d %d)", eb, sb), tsrt, rne, v)
	case isFloat(from) && isInteger(to):
		tw := tsrt.bvWidth()
		if isSigned(to) {
			return ts.App(fmt.Sprintf("(_ fp.to_sbv %d)", tw), tsrt, rtz, v)
		}
		return ts.App(fmt.Sprintf("(_ fp.to_ubv %d)", tw), tsrt, rtz, v)
	case isFloat(from) && isFloat(to):
		if fs == tsrt {
			return v
		}
		eb, sb := 11, 53
		if tsrt == SF32 {
			eb, sb = 8, 24
		}
		return ts.App(fmt.Sprintf("(_ to_fp %d %d)", eb, sb), tsrt, rne, v)
	case isString(from) && isString(to):
		return v
	case isInteger(from) && isString(to):
		r := x.w.Fun("str_of_rune", SStr, x.toInt64(v, from))
		x.assume(x.w.bvule(x.w.strLen(r), ts.BV(4, 64)))
		x.assume(x.w.bvule(ts.BV(1, 64), x.w.strLen(r)))
		return r
	case isString(from):
		// string -> []byte / []rune
		sl, ok := to.Underlying().(*types.Slice)
		if !ok {
			break
		}
		if x.w.sortOf(sl.Elem()) == SBV(8) {
			r := x.allocRef(st, "bytes")
			n, s := x.elemComp(sl.Elem())
			h := x.comp(st, n, s)
			st.heap[n] = ts.Store(h, r, x.w.Fun("str_bytes", SArr(SBV(64), SBV(8)), v))
			ln := x.w.strLen(v)
			return x.w.mkSlice(r, ts.BV(0, 64), ln, ln)
		}
		// []rune
		r := x.allocRef(st, "runes")
		n, s := x.elemComp(sl.Elem())
		x.comp(st, n, s)
		x.havocRow(st, n, r)
		ln := x.w.Fresh("runelen", SBV(64))
		x.assume(x.w.bvule(ln, x.w.strLen(v)))
		return x.w.mkSlice(r, ts.BV(0, 64), ln, ln)
	case isString(to):
		sl, ok := from.Underlying().(*types.Slice)
		if !ok {
			break
		}
		if x.w.sortOf(sl.Elem()) == SBV(8) {
			n, s := x.elemComp(sl.Elem())
			row := ts.Select(x.comp(st, n, s), x.w.sArr(v))
			r := x.w.Fun("str_of_bytes", SStr, row, x.w.sOff(v), x.w.sLen(v))
			x.assume(ts.Eq(x.w.strLen(r), x.w.sLen(v)))
			x.assume(ts.Implies(ts.Eq(x.w.sOff(v), ts.BV(0, 64)), ts.Eq(x.w.Fun("str_bytes", SArr(SBV(64), SBV(8)), r), row)))
			return r
		}
		r := x.w.Fresh("str_of_runes", SStr)
		x.assume(x.w.bvule(x.w.strLen(r), x.bvOp("bvmul", ts.BV(4, 64), x.w.sLen(v))))
		return r
	}
	if _, ok := to.Underlying().(*types.Pointer); ok {
		return v // unsafe.Pointer conversions
	}
	if b, ok := to.Underlying().(*types.Basic); ok && b.Kind() == types.UnsafePointer {
		return v
	}
	unsup("convert %s -> %s", from, to)
	return nil
}

func (x *Exec) havocRow(st *State, comp string, arr *Term) {
	ts := x.w.ts
	h := st.heap[comp]
	_, rowSort, _ := h.sort.arrParts()
	st.heap[comp] = ts.Store(h, arr, x.w.Fresh("row", rowSort))
}

func (x *Exec) fieldAddr(fr *Frame, in *ssa.FieldAddr, st *State) Value {
	base := x.get(fr, in.X)
	pt := in.X.Type().Underlying().(*types.Pointer)
	structT := pt.Elem()
	ft := structT.Underlying().(*types.Struct).Field(in.Field).Type()
	switch b := base.(type) {
	case *Term:
		x.safety(st, "nil", in, describe(in.X), x.w.ts.Not(x.w.ts.Eq(b, x.w.ts.IntLit(0))))
		return &Addr{root: rField, structT: structT, field: in.Field, ref: b, curT: ft}
	case *Addr:
		n := *b
		if b.nilWhen != nil {
			x.safety(st, "nil", in, describe(in.X), x.w.ts.Not(b.nilWhen))
			n.nilWhen = nil
		}
		n.path = append(append([]pathStep{}, b.path...), pathStep{isField: true, field: in.Field, structT: structT})
		n.curT = ft
		return &n
	}
	unsup("FieldAddr base %T", base)
	return nil
}

func (x *Exec) indexAddr(fr *Frame, in *ssa.IndexAddr, st *State) Value {
	ts := x.w.ts
	base := x.get(fr, in.X)
	idx := x.toInt64(x.term(fr, in.Index), in.Index.Type())
	switch xt := in.X.Type().Underlying().(type) {
	case *types.Slice:
		s := base.(*Term)
		x.safety(st, "index", in, describe(in.X)+"["+describe(in.Index)+"]", x.w.bvult(idx, x.w.sLen(s)))
		return &Addr{root: rElem, arr: x.w.sArr(s), idx: x.bvOp("bvadd", x.w.sOff(s), idx), elemT: xt.Elem(), curT: xt.Elem()}
	case *types.Pointer:
		at := xt.Elem().Underlying().(*types.Array)
		a := x.toAddr(base, in.X.Type())
		if t, ok := base.(*Term); ok {
			x.safety(st, "nil", in, describe(in.X), ts.Not(ts.Eq(t, ts.IntLit(0))))
		}
		x.safety(st, "index", in, describe(in.X)+"["+describe(in.Index)+"]", x.w.bvult(idx, ts.BV(uint64(at.Len()), 64)))
		if row, ok := x.arrayFieldRow(st, a); ok {
			if _, isStruct := at.Elem().Underlying().(*types.Struct); isStruct {
				// array of structs embedded in a struct: a row of references to the element objects
				e := x.objElem(st, row, idx, at.Elem(), at.Len())
				return e
			}
			return &Addr{root: rElem, arr: row, idx: idx, elemT: at.Elem(), curT: at.Elem()}
		}
		n := *a
		n.path = append(append([]pathStep{}, a.path...), pathStep{idx: idx, arrT: xt.Elem()})
		n.curT = at.Elem()
		return &n
	}
	unsup("IndexAddr on %s", in.X.Type())
	return nil
}

func (x *Exec) index(fr *Frame, in *ssa.Index, st *State) Value {
	ts := x.w.ts
	v := x.term(fr, in.X)
	idx := x.toInt64(x.term(fr, in.Index), in.Index.Type())
	switch xt := in.X.Type().Underlying().(type) {
	case *types.Array:
		x.safety(st, "index", in, describe(in.X)+"["+describe(in.Index)+"]", x.w.bvult(idx, ts.BV(uint64(xt.Len()), 64)))
		return ts.Select(v, idx)
	case *types.Basic: // string
		x.safety(st, "index", in, describe(in.X)+"["+describe(in.Index)+"]", x.w.bvult(idx, x.w.strLen(v)))
		return ts.Select(x.w.Fun("str_bytes", SArr(SBV(64), SBV(8)), v), idx)
	}
	unsup("Index on %s", in.X.Type())
	return nil
}

func (x *Exec) lookup(fr *Frame, in *ssa.Lookup, st *State) Value {
	ts := x.w.ts
	m := x.term(fr, in.X)
	switch xt := in.X.Type().Underlying().(type) {
	case *types.Map:
		k := x.term(fr, in.Index)
		dn, vn, _, ks, vs := x.mapComps(xt)
		d := ts.Select(x.comp(st, dn, SArr(SInt, SArr(ks, SBool))), m)
		vv := ts.Select(x.comp(st, vn, SArr(SInt, SArr(ks, vs))), m)
		notNil := ts.Not(ts.Eq(m, ts.IntLit(0)))
		ok := ts.And(notNil, ts.Select(d, k))
		val := ts.Ite(ok, ts.Select(vv, k), x.w.zeroOf(xt.Elem()))
		x.assume(x.w.validFacts(val, xt.Elem(), st.alloc, 0))
		x.baseValid(x.comp(st, vn, SArr(SInt, SArr(ks, vs))), xt.Elem(), m, k)
		if in.CommaOk {
			return Tuple{val, ok}
		}
		return val
	case *types.Basic: // string index
		idx := x.toInt64(x.term(fr, in.Index), in.Index.Type())
		x.safety(st, "index", in, describe(in.X)+"["+describe(in.Index)+"]", x.w.bvult(idx, x.w.strLen(m)))
		return ts.Select(x.w.Fun("str_bytes", SArr(SBV(64), SBV(8)), m), idx)
	}
	unsup("Lookup on %s", in.X.Type())
	return nil
}

func (x *Exec) mapUpdate(fr *Frame, in *ssa.MapUpdate, st *State) {
	ts := x.w.ts
	m := x.term(fr, in.Map)
	mt := in.Map.Type().Underlying().(*types.Map)
	k, v := x.term(fr, in.Key), x.term(fr, in.Value)
	x.safety(st, "mapnil", in, describe(in.Map), ts.Not(ts.Eq(m, ts.IntLit(0))))
	x.mapStore(st, mt, m, k, v)
}

func (x *Exec) mapStore(st *State, mt *types.Map, m, k, v *Term) {
	ts := x.w.ts
	dn, vn, ln, ks, vs := x.mapComps(mt)
	d := x.comp(st, dn, SArr(SInt, SArr(ks, SBool)))
	vv := x.comp(st, vn, SArr(SInt, SArr(ks, vs)))
	l := x.comp(st, ln, SArr(SInt, SBV(64)))
	had := ts.Select(ts.Select(d, m), k)
	st.heap[dn] = ts.Store(d, m, ts.Store(ts.Select(d, m), k, ts.True()))
	st.heap[vn] = ts.Store(vv, m, ts.Store(ts.Select(vv, m), k, v))
	st.heap[ln] = ts.Store(l, m, ts.Ite(had, ts.Select(l, m), x.bvOp("bvadd", ts.Select(l, m), ts.BV(1, 64))))
}

func (x *Exec) mapDelete(st *State, mt *types.Map, m, k *Term) {
	ts := x.w.ts
	dn, _, ln, ks, _ := x.mapComps(mt)
	d := x.comp(st, dn, SArr(SInt, SArr(ks, SBool)))
	l := x.comp(st, ln, SArr(SInt, SBV(64)))
	had := ts.And(ts.Not(ts.Eq(m, ts.IntLit(0))), ts.Select(ts.Select(d, m), k))
	st.heap[dn] = ts.Store(d, m, ts.Store(ts.Select(d, m), k, ts.False()))
	st.heap[ln] = ts.Store(l, m, ts.Ite(had, x.bvOp("bvsub", ts.Select(l, m), ts.BV(1, 64)), ts.Select(l, m)))
}

func (x *Exec) mapLen(st *State, m *Term) *Term {
	ts := x.w.ts
	l := x.comp(st, "Ml", SArr(SInt, SBV(64)))
	r := ts.Ite(ts.Eq(m, ts.IntLit(0)), ts.BV(0, 64), ts.Select(l, m))
	x.assume(x.w.bvult(r, x.w.lenBound()))
	return r
}

func (x *Exec) next(fr *Frame, in *ssa.Next, st *State) Value {
	ts := x.w.ts
	it, ok := x.get(fr, in.Iter).(*mapIter)
	if !ok {
		unsup("Next on non-iterator")
	}
	okv := x.w.Fresh("next_ok", SBool)
	if it.isStr {
		k := x.w.Fresh("next_i", SBV(64))
		r := x.w.Fresh("next_r", SBV(32))
		x.assume(ts.Implies(okv, x.w.bvult(k, x.w.strLen(it.str))))
		return Tuple{okv, k, r}
	}
	dn, vn, _, ks, vs := x.mapComps(it.mt)
	d := ts.Select(x.comp(st, dn, SArr(SInt, SArr(ks, SBool))), it.m)
	vv := ts.Select(x.comp(st, vn, SArr(SInt, SArr(ks, vs))), it.m)
	k := x.w.Fresh("next_k", ks)
	x.assume(ts.Implies(okv, ts.And(ts.Not(ts.Eq(it.m, ts.IntLit(0))), ts.Select(d, k))))
	if it.id != nil {
		// ghost visited set: every entry that was present when the iteration
		// started and is never deleted is produced exactly once
		vn, _, _ := x.visComps(it.mt)
		vsort := SArr(SInt, SArr(ks, SBool))
		vh := x.comp(st, vn, vsort)
		vis := ts.Select(vh, it.id)
		st.heap[vn] = ts.Ite(okv, ts.Store(vh, it.id, ts.Store(vis, k, ts.True())), vh)
		if lp := fr.loops.headers[in.Block()]; lp != nil && !x.loopMayDelete(lp, it.mt) {
			x.assume(ts.Implies(okv, ts.Not(ts.Select(vis, k))))
			b := ts.Bound("vk", ks)
			x.assume(ts.Implies(ts.Not(okv), ts.Quant("forall", []*Term{b}, ts.Implies(ts.Select(it.d0, b), ts.Select(vis, b)))))
		}
	}
	val := ts.Select(vv, k)
	x.assume(x.w.validFacts(k, it.mt.Key(), st.alloc, 0))
	x.assume(x.w.validFacts(val, it.mt.Elem(), st.alloc, 0))
	return Tuple{okv, k, val}
}

// allocSize: allocation policy for decoders (C18): a size that is not a
// constant must be at most maxPrealloc+64 or at most the number of input bytes
// known to be in hand at that point (the length of a []byte input, or a
// value returned by Len() of the reader being decoded).
func (x *Exec) allocSize(st *State, in ssa.Instruction, n *Term, elemSize int) {
	if !x.allocChecked || x.specDepth > 0 {
		return
	}
	if _, isConst := n.bvConst(); isConst {
		return
	}
	ts := x.w.ts
	limit := uint64(1<<20) + 64
	if x.allocLimit != 0 {
		limit = x.allocLimit
	}
	alts := []*Term{x.w.bvsle(n, ts.BV(limit, 64))}
	for _, l := range x.availLens {
		alts = append(alts, x.w.bvsle(n, x.bvOp("bvadd", l, ts.BV(64, 64))))
	}
	var detail string
	switch t := in.(type) {
	case *ssa.MakeSlice:
		detail = describe(t.Len)
		if c, ok := t.Cap.(*ssa.Const); !ok || c.Value == nil {
			detail = describe(t.Cap)
		}
	case *ssa.MakeMap:
		detail = describe(t.Reserve)
	}
	x.safety(st, "alloc", in, detail, ts.Or(alts...))
}

func (x *Exec) makeSlice(fr *Frame, in *ssa.MakeSlice, st *State) Value {
	ts := x.w.ts
	ln := x.toInt64(x.term(fr, in.Len), in.Len.Type())
	cp := x.toInt64(x.term(fr, in.Cap), in.Cap.Type())
	et := in.Type().Underlying().(*types.Slice).Elem()
	x.safety(st, "make", in, describe(in.Len), ts.And(x.w.bvsle(ts.BV(0, 64), ln), x.w.bvsle(ln, cp), x.w.bvult(cp, x.w.lenBound())))
	x.allocSize(st, in, cp, 1)
	r := x.allocRef(st, "slice")
	n, s := x.elemComp(et)
	h := x.comp(st, n, s)
	_, rowSort, _ := s.arrParts()
	st.heap[n] = ts.Store(h, r, ts.App("(as const "+string(rowSort)+")", rowSort, x.w.zeroOf(et)))
	return x.w.mkSlice(r, ts.BV(0, 64), ln, cp)
}

func (x *Exec) slice(fr *Frame, in *ssa.Slice, st *State) Value {
	ts := x.w.ts
	zero := ts.BV(0, 64)
	var lo, hi, mx *Term
	if in.Low != nil {
		lo = x.toInt64(x.term(fr, in.Low), in.Low.Type())
	} else {
		lo = zero
	}
	if in.High != nil {
		hi = x.toInt64(x.term(fr, in.High), in.High.Type())
	}
	if in.Max != nil {
		mx = x.toInt64(x.term(fr, in.Max), in.Max.Type())
	}
	detail := describe(in.X) + "[" + descOpt(in.Low) + ":" + descOpt(in.High) + "]"
	switch xt := in.X.Type().Underlying().(type) {
	case *types.Slice:
		s := x.term(fr, in.X)
		cp := x.w.sCap(s)
		if hi == nil {
			hi = x.w.sLen(s)
		}
		if mx == nil {
			mx = cp
		}
		x.safety(st, "slice", in, detail, ts.And(x.w.bvule(lo, hi), x.w.bvule(hi, mx), x.w.bvule(mx, cp)))
		return x.w.mkSlice(x.w.sArr(s), x.bvOp("bvadd", x.w.sOff(s), lo), x.bvOp("bvsub", hi, lo), x.bvOp("bvsub", mx, lo))
	case *types.Basic: // string
		s := x.term(fr, in.X)
		if hi == nil {
			hi = x.w.strLen(s)
		}
		x.safety(st, "slice", in, detail, ts.And(x.w.bvule(lo, hi), x.w.bvule(hi, x.w.strLen(s))))
		if lo == zero && in.High == nil {
			return s
		}
		r := x.w.Fun("str_sub", SStr, s, lo, hi)
		x.assume(ts.Eq(x.w.strLen(r), x.bvOp("bvsub", hi, lo)))
		return r
	case *types.Pointer: // pointer to array
		at := xt.Elem().Underlying().(*types.Array)
		n := ts.BV(uint64(at.Len()), 64)
		if hi == nil {
			hi = n
		}
		if mx == nil {
			mx = n
		}
		x.safety(st, "slice", in, detail, ts.And(x.w.bvule(lo, hi), x.w.bvule(hi, mx), x.w.bvule(mx, n)))
		base := x.get(fr, in.X)
		if ba, ok := base.(*Addr); ok {
			if row, ok := x.arrayFieldRow(st, ba); ok {
				if _, isStruct := at.Elem().Underlying().(*types.Struct); isStruct {
					unsup("slice of an embedded array of structs")
				}
				return x.w.mkSlice(row, lo, x.bvOp("bvsub", hi, lo), x.bvOp("bvsub", mx, lo))
			}
		}
		// Arrays live as values inside cells/fields, slices need a backing row:
		// model the array cell's row as E[ref] by copying (sound only if the
		// array is not accessed through the original path afterwards): unsupported
		// unless base is a plain cell reference.
		if t, ok := base.(*Term); ok {
			en, es := x.elemComp(at.Elem())
			cn, cs := x.cellComp(xt.Elem())
			cell := ts.Select(x.comp(st, cn, cs), t)
			h := x.comp(st, en, es)
			r := x.allocRef(st, "arrslice")
			st.heap[en] = ts.Store(h, r, cell)
			x.note("slicing a local array copies it into a fresh backing row (writes through the slice are not seen via the array variable)")
			return x.w.mkSlice(r, lo, x.bvOp("bvsub", hi, lo), x.bvOp("bvsub", mx, lo))
		}
		unsup("slice of interior array")
	}
	unsup("Slice on %s", in.X.Type())
	return nil
}

func descOpt(v ssa.Value) string {
	if v == nil {
		return ""
	}
	return describe(v)
}

func (x *Exec) typeAssert(fr *Frame, in *ssa.TypeAssert, st *State) Value {
	ts := x.w.ts
	v := x.term(fr, in.X)
	at := in.AssertedType
	if _, isIface := at.Underlying().(*types.Interface); isIface {
		ok := x.implements(v, at)
		if in.CommaOk {
			return Tuple{ts.Ite(ok, v, x.w.ifaceNil()), ok}
		}
		x.safety(st, "assert", in, describe(in.X)+".("+shortTypeString(at)+")", ok)
		return v
	}
	ok := x.w.isBox(at, v)
	val := x.w.unbox(at, v)
	x.assume(ts.Implies(ok, x.w.validFacts(val, at, st.alloc, 0)))
	if in.CommaOk {
		return Tuple{ts.Ite(ok, val, x.w.zeroOf(at)), ok}
	}
	x.safety(st, "assert", in, describe(in.X)+".("+shortTypeString(at)+")", ok)
	return val
}

// implements: dynamic type of v implements interface type it.
// Registered box types are decided statically at print time through a
// deferred disjunction; to keep things incremental we use an uninterpreted
// predicate per interface and add axioms for every registered box at print time.
func (x *Exec) implements(v *Term, it types.Type) *Term {
	ts := x.w.ts
	iface := it.Underlying().(*types.Interface)
	if iface.NumMethods() == 0 {
		return ts.Not(ts.Eq(v, x.w.ifaceNil()))
	}
	name := "impl_" + sanitize(shortTypeString(it))
	x.w.implUsed[name] = iface
	return x.w.Fun(name, SBool, v)
}

// arrayFieldRow: a addresses an array-typed field of a struct; returns the
// reference of the row holding the array's elements.
func (x *Exec) arrayFieldRow(st *State, a *Addr) (*Term, bool) {
	if _, ok := a.curT.Underlying().(*types.Array); !ok {
		return nil, false
	}
	inStruct := false
	switch {
	case len(a.path) > 0:
		inStruct = a.path[len(a.path)-1].isField
	case a.root == rField:
		inStruct = true
	}
	if !inStruct {
		return nil, false
	}
	row := x.load(st, a)
	if row.sort != SInt {
		return nil, false
	}
	ts := x.w.ts
	x.assume(ts.And(x.w.intLt(ts.IntLit(0), row), x.w.intLe(row, st.alloc)))
	return row, true
}

// objElem: reference of element idx of an embedded array of structs (rows of
// object references; distinct indices give distinct, non-nil objects).
func (x *Exec) objElem(st *State, row, idx *Term, elemT types.Type, n int64) *Term {
	ts := x.w.ts
	si := x.w.structOf(elemT)
	cn := "Eobj_" + si.name
	h := x.comp(st, cn, SArr(SInt, SArr(SBV(64), SInt)))
	e := ts.Select(ts.Select(h, row), idx)
	x.assume(ts.And(x.w.intLt(ts.IntLit(0), e), x.w.intLe(e, st.alloc)))
	x.assume(ts.And(ts.Eq(x.w.Fun("objrow_"+si.name, SInt, e), row), ts.Eq(x.w.Fun("objidx_"+si.name, SBV(64), e), idx)))
	if idx.open && !row.open && !h.open && n > 0 {
		// the element is named by a quantified index: the facts above would be
		// dropped (open), so state them once for every index of this row
		b := ts.BoundAt("oi", SBV(64), 150)
		eb := ts.Select(ts.Select(h, row), b)
		x.assume(ts.Quant("forall", []*Term{b}, ts.Implies(x.w.bvult(b, ts.BV(uint64(n), 64)),
			ts.And(x.w.intLt(ts.IntLit(0), eb),
				ts.Eq(x.w.Fun("objrow_"+si.name, SInt, eb), row), ts.Eq(x.w.Fun("objidx_"+si.name, SBV(64), eb), b)))))
	}
	return e
}

// allocEmbeddedArrays gives the array fields of a freshly allocated struct their rows.
func (x *Exec) allocEmbeddedArrays(st *State, ref *Term, t types.Type) {
	u, ok := t.Underlying().(*types.Struct)
	if !ok {
		return
	}
	ts := x.w.ts
	for i := 0; i < u.NumFields(); i++ {
		at, ok := u.Field(i).Type().Underlying().(*types.Array)
		if !ok {
			continue
		}
		r := x.allocRef(st, "arrayfield")
		fn, fs := x.fieldComp(t, i)
		st.heap[fn] = ts.Store(x.comp(st, fn, fs), ref, r)
		if _, isStruct := at.Elem().Underlying().(*types.Struct); isStruct {
			x.note("embedded array of structs in a freshly allocated %s: element objects are not zero-initialised in the model", shortTypeString(t))
			continue
		}
		en, es := x.elemComp(at.Elem())
		_, rowSort, _ := es.arrParts()
		st.heap[en] = ts.Store(x.comp(st, en, es), r, ts.App("(as const "+string(rowSort)+")", rowSort, x.w.zeroOf(at.Elem())))
	}
}

// isSpecFn: a generated contract function or one of its closures.
func (x *Exec) isSpecFn(fn *ssa.Function) bool {
	for fn != nil {
		if strings.HasPrefix(fn.Name(), "verif_c_") {
			return true
		}
		fn = fn.Parent()
	}
	return false
}
