package main

// World: mapping from Go types to SMT sorts, datatype registry (structs,
// interface boxes), declared constants / uninterpreted functions and string
// constants. One World per verified function (cheap to build).

import (
	"fmt"
	"go/types"
	"os"
	"sort"
	"strings"
)

type funDecl struct {
	args []Sort
	ret  Sort
}

type structInfo struct {
	name   string // datatype / sort name
	typ    *types.Struct
	fields []Sort
	fnames []string
}

type boxInfo struct {
	ctor    string
	typ     types.Type
	payload Sort
}

type World struct {
	ts        *TermStore
	consts    map[string]Sort
	funs      map[string]funDecl
	structs   map[string]*structInfo
	structIDs map[string]string // types.TypeString(struct underlying or named) -> datatype name
	boxes     map[string]*boxInfo
	boxOrder  []string
	strConsts map[string]*Term
	strOrder  []string
	axioms    []*Term
	freshN    int
	assumes   map[string]bool // recorded modelling assumptions (names)
	anonN     int
	implUsed  map[string]*types.Interface

	needStrOrder bool
}

func NewWorld() *World {
	return &World{
		ts: NewTermStore(), consts: map[string]Sort{}, funs: map[string]funDecl{},
		structs: map[string]*structInfo{}, structIDs: map[string]string{},
		boxes: map[string]*boxInfo{}, strConsts: map[string]*Term{}, assumes: map[string]bool{}, implUsed: map[string]*types.Interface{},
	}
}

type unsupported struct{ msg string }

func unsup(format string, a ...any) {
	msg := fmt.Sprintf(format, a...)
	if os.Getenv("GOVC_TRACE") != "" {
		panic("unsupported: " + msg)
	}
	panic(unsupported{msg})
}

func sanitize(s string) string {
	var sb strings.Builder
	for _, r := range s {
		switch {
		case r >= 'a' && r <= 'z', r >= 'A' && r <= 'Z', r >= '0' && r <= '9', r == '_':
			sb.WriteRune(r)
		case r == '*':
			sb.WriteString("P")
		case r == '.':
			sb.WriteString("_")
		case r == '/':
			sb.WriteString("_")
		case r == '[':
			sb.WriteString("L")
		case r == ']':
			sb.WriteString("J")
		default:
			sb.WriteString("_")
		}
	}
	return sb.String()
}

func shortTypeString(t types.Type) string {
	return types.TypeString(t, func(p *types.Package) string { return p.Name() })
}

func (w *World) Fresh(prefix string, s Sort) *Term {
	w.freshN++
	name := fmt.Sprintf("%s!%d", sanitize(prefix), w.freshN)
	w.consts[name] = s
	return w.ts.Leaf(name, s)
}

func (w *World) Const(name string, s Sort) *Term {
	if old, ok := w.consts[name]; ok && old != s {
		panic("const redeclared with different sort: " + name)
	}
	w.consts[name] = s
	return w.ts.Leaf(name, s)
}

func (w *World) Fun(name string, ret Sort, args ...*Term) *Term {
	if _, ok := w.funs[name]; !ok {
		fd := funDecl{ret: ret}
		for _, a := range args {
			fd.args = append(fd.args, a.sort)
		}
		w.funs[name] = fd
	}
	return w.ts.App(name, ret, args...)
}

func (w *World) sortOf(t types.Type) Sort {
	switch u := t.Underlying().(type) {
	case *types.Basic:
		switch u.Kind() {
		case types.Bool, types.UntypedBool:
			return SBool
		case types.Int8, types.Uint8:
			return SBV(8)
		case types.Int16, types.Uint16:
			return SBV(16)
		case types.Int32, types.Uint32, types.UntypedRune:
			return SBV(32)
		case types.Int, types.Uint, types.Int64, types.Uint64, types.Uintptr, types.UntypedInt:
			return SBV(64)
		case types.Float64, types.UntypedFloat:
			return SF64
		case types.Float32:
			return SF32
		case types.String, types.UntypedString:
			return SStr
		case types.UnsafePointer:
			return SInt
		case types.UntypedNil:
			return SInt
		}
		unsup("basic type %s", u)
	case *types.Pointer, *types.Map, *types.Chan, *types.Signature:
		return SInt
	case *types.Slice:
		return SSlice
	case *types.Interface:
		return SIface
	case *types.Struct:
		return Sort(w.structOf(t).name)
	case *types.Array:
		return SArr(SBV(64), w.sortOf(u.Elem()))
	case *types.TypeParam:
		unsup("type parameter %s", t)
	}
	unsup("type %s", t)
	return ""
}

func isSigned(t types.Type) bool {
	b, ok := t.Underlying().(*types.Basic)
	return ok && b.Info()&types.IsInteger != 0 && b.Info()&types.IsUnsigned == 0
}
func isUnsigned(t types.Type) bool {
	b, ok := t.Underlying().(*types.Basic)
	return ok && b.Info()&types.IsUnsigned != 0
}
func isInteger(t types.Type) bool {
	b, ok := t.Underlying().(*types.Basic)
	return ok && b.Info()&types.IsInteger != 0
}
func isFloat(t types.Type) bool {
	b, ok := t.Underlying().(*types.Basic)
	return ok && b.Info()&types.IsFloat != 0
}
func isString(t types.Type) bool {
	b, ok := t.Underlying().(*types.Basic)
	return ok && b.Info()&types.IsString != 0
}
func isBoolean(t types.Type) bool {
	b, ok := t.Underlying().(*types.Basic)
	return ok && b.Info()&types.IsBoolean != 0
}

func (w *World) structOf(t types.Type) *structInfo {
	st := t.Underlying().(*types.Struct)
	key := shortTypeString(t)
	if _, isNamed := t.(*types.Named); !isNamed {
		key = "anon:" + types.TypeString(st, nil)
	} else {
		key = types.TypeString(t, nil)
	}
	if n, ok := w.structIDs[key]; ok {
		return w.structs[n]
	}
	var name string
	if _, isNamed := t.(*types.Named); isNamed {
		name = "S_" + sanitize(shortTypeString(t))
	} else {
		w.anonN++
		name = fmt.Sprintf("S_anon%d", w.anonN)
	}
	for w.structs[name] != nil {
		name += "x"
	}
	si := &structInfo{name: name, typ: st}
	w.structIDs[key] = name
	w.structs[name] = si
	for i := 0; i < st.NumFields(); i++ {
		if _, isArr := st.Field(i).Type().Underlying().(*types.Array); isArr {
			// arrays embedded in structs live in a row of their own, referenced from the struct
			si.fields = append(si.fields, SInt)
		} else {
			si.fields = append(si.fields, w.sortOf(st.Field(i).Type()))
		}
		fn := sanitize(st.Field(i).Name())
		if fn == "_" {
			fn = fmt.Sprintf("blank%d", i)
		}
		si.fnames = append(si.fnames, fmt.Sprintf("%s.%s", name, fn))
	}
	return si
}

// mkStruct builds a struct value.
func (w *World) mkStruct(si *structInfo, vals []*Term) *Term {
	if len(vals) == 0 {
		return w.ts.Leaf("mk_"+si.name, Sort(si.name))
	}
	// (mk (f0 x) (f1 x) ...) -> x
	if a0 := vals[0]; a0.kind == kApp && a0.op == si.fnames[0] {
		x := a0.args[0]
		all := true
		for i, v := range vals {
			if !(v.kind == kApp && v.op == si.fnames[i] && v.args[0] == x) {
				all = false
				break
			}
		}
		if all {
			return x
		}
	}
	return w.ts.App("mk_"+si.name, Sort(si.name), vals...)
}

func (w *World) field(si *structInfo, v *Term, i int) *Term {
	if v.kind == kApp && v.op == "mk_"+si.name {
		return v.args[i]
	}
	if v.kind == kApp && v.op == "ite" {
		// push projection through ite of constructors to keep terms simple
		a, b := v.args[1], v.args[2]
		if (a.kind == kApp && a.op == "mk_"+si.name) || (b.kind == kApp && b.op == "mk_"+si.name) {
			return w.ts.Ite(v.args[0], w.field(si, a, i), w.field(si, b, i))
		}
	}
	return w.ts.App(si.fnames[i], si.fields[i], v)
}

func (w *World) setField(si *structInfo, v *Term, i int, nv *Term) *Term {
	vals := make([]*Term, len(si.fields))
	for j := range vals {
		if j == i {
			vals[j] = nv
		} else {
			vals[j] = w.field(si, v, j)
		}
	}
	return w.mkStruct(si, vals)
}

// ---- slices

func (w *World) mkSlice(arr, off, ln, cp *Term) *Term {
	return w.ts.App("mk_slice", SSlice, arr, off, ln, cp)
}
func (w *World) slicePart(s *Term, i int) *Term {
	if s.kind == kApp && s.op == "mk_slice" {
		return s.args[i]
	}
	if s.kind == kApp && s.op == "ite" {
		a, b := s.args[1], s.args[2]
		if (a.kind == kApp && a.op == "mk_slice") || (b.kind == kApp && b.op == "mk_slice") {
			return w.ts.Ite(s.args[0], w.slicePart(a, i), w.slicePart(b, i))
		}
	}
	names := []string{"s_arr", "s_off", "s_len", "s_cap"}
	sorts := []Sort{SInt, SBV(64), SBV(64), SBV(64)}
	return w.ts.App(names[i], sorts[i], s)
}
func (w *World) sArr(s *Term) *Term { return w.slicePart(s, 0) }
func (w *World) sOff(s *Term) *Term { return w.slicePart(s, 1) }
func (w *World) sLen(s *Term) *Term { return w.slicePart(s, 2) }
func (w *World) sCap(s *Term) *Term { return w.slicePart(s, 3) }

func (w *World) nilSlice() *Term {
	z := w.ts.BV(0, 64)
	return w.mkSlice(w.ts.IntLit(0), z, z, z)
}

// ---- interfaces

func (w *World) boxOf(t types.Type) *boxInfo {
	key := types.TypeString(t, nil)
	if b, ok := w.boxes[key]; ok {
		return b
	}
	name := "box_" + sanitize(shortTypeString(t))
	for _, b := range w.boxes {
		if b.ctor == name {
			name += "x"
		}
	}
	b := &boxInfo{ctor: name, typ: t, payload: w.sortOf(t)}
	w.boxes[key] = b
	w.boxOrder = append(w.boxOrder, key)
	return b
}

func (w *World) ifaceNil() *Term { return w.ts.Leaf("iface_nil", SIface) }

func (w *World) box(t types.Type, v *Term) *Term {
	b := w.boxOf(t)
	return w.ts.App(b.ctor, SIface, v)
}
func (w *World) isBox(t types.Type, x *Term) *Term {
	b := w.boxOf(t)
	if x.kind == kApp && strings.HasPrefix(x.op, "box_") {
		return w.ts.BoolLit(x.op == b.ctor)
	}
	if x.kind == kLeaf && x.op == "iface_nil" {
		return w.ts.False()
	}
	if x.kind == kApp && x.op == "ite" && ifaceIteDepth(x, 0) <= 8 {
		return w.ts.Ite(x.args[0], w.isBox(t, x.args[1]), w.isBox(t, x.args[2]))
	}
	return w.ts.App("(_ is "+b.ctor+")", SBool, x)
}

// ifaceIteDepth: size of an ite tree whose leaves are constructor applications.
func ifaceIteDepth(x *Term, n int) int {
	if n > 64 {
		return n
	}
	if x.kind == kApp && x.op == "ite" {
		n = ifaceIteDepth(x.args[1], n)
		return ifaceIteDepth(x.args[2], n)
	}
	if (x.kind == kApp && strings.HasPrefix(x.op, "box_")) || (x.kind == kLeaf && x.op == "iface_nil") {
		return n + 1
	}
	return n + 100 // opaque leaf: do not distribute
}
func (w *World) unbox(t types.Type, x *Term) *Term {
	b := w.boxOf(t)
	if x.kind == kApp && x.op == b.ctor {
		return x.args[0]
	}
	if x.kind == kApp && x.op == "ite" && ifaceIteDepth(x, 0) <= 8 {
		// leaves of another constructor contribute an arbitrary (unused) payload: use the zero value
		return w.ts.Ite(x.args[0], w.unboxOrZero(t, x.args[1]), w.unboxOrZero(t, x.args[2]))
	}
	return w.ts.App("un"+b.ctor, b.payload, x)
}

// unboxOrZero: payload of x if it is a box of t, else the accessor applied to it
// (unspecified in SMT; only reachable under a false is-test).
func (w *World) unboxOrZero(t types.Type, x *Term) *Term {
	b := w.boxOf(t)
	if (x.kind == kApp && strings.HasPrefix(x.op, "box_") && x.op != b.ctor) || (x.kind == kLeaf && x.op == "iface_nil") {
		return w.zeroOf(t)
	}
	return w.unbox(t, x)
}

// ---- strings

func (w *World) strLen(s *Term) *Term { return w.Fun("str_len", SBV(64), s) }
func (w *World) strAt(s, i *Term) *Term {
	return w.Fun("str_at", SBV(8), s, i)
}

func (w *World) strConst(v string) *Term {
	if t, ok := w.strConsts[v]; ok {
		return t
	}
	name := fmt.Sprintf("str!%d", len(w.strOrder))
	t := w.Const(name, SStr)
	w.strConsts[v] = t
	w.strOrder = append(w.strOrder, v)
	w.axioms = append(w.axioms, w.ts.Eq(w.strLen(t), w.ts.BV(uint64(len(v)), 64)))
	if len(v) <= 16 {
		for i := 0; i < len(v); i++ {
			w.axioms = append(w.axioms, w.ts.Eq(w.strAt(t, w.ts.BV(uint64(i), 64)), w.ts.BV(uint64(v[i]), 8)))
		}
	}
	return t
}

// ---- zero values

func (w *World) zeroOf(t types.Type) *Term {
	switch u := t.Underlying().(type) {
	case *types.Basic:
		s := w.sortOf(t)
		switch {
		case s == SBool:
			return w.ts.False()
		case s.bvWidth() > 0:
			return w.ts.BV(0, s.bvWidth())
		case s == SF64:
			return w.ts.Leaf("(_ +zero 11 53)", SF64)
		case s == SF32:
			return w.ts.Leaf("(_ +zero 8 24)", SF32)
		case s == SStr:
			return w.strConst("")
		case s == SInt:
			return w.ts.IntLit(0)
		}
	case *types.Pointer, *types.Map, *types.Chan, *types.Signature:
		return w.ts.IntLit(0)
	case *types.Slice:
		return w.nilSlice()
	case *types.Interface:
		return w.ifaceNil()
	case *types.Struct:
		si := w.structOf(t)
		vals := make([]*Term, u.NumFields())
		for i := range vals {
			if _, isArr := u.Field(i).Type().Underlying().(*types.Array); isArr {
				vals[i] = w.ts.IntLit(0)
			} else {
				vals[i] = w.zeroOf(u.Field(i).Type())
			}
		}
		return w.mkStruct(si, vals)
	case *types.Array:
		return w.ts.App("(as const "+string(w.sortOf(t))+")", w.sortOf(t), w.zeroOf(u.Elem()))
	}
	unsup("zero value of %s", t)
	return nil
}

// ---- validity facts (memory-model axioms instantiated on a term)

// lengths of values that exist are below 2^48 (amd64 user address space is 47
// bits); a length handed to make must be below 2^56 (sums of a few existing
// lengths are), anything larger is reported.
const maxLenBits = 56
const maxExistingLenBits = 48

func (w *World) existingLenBound() *Term { return w.ts.BV(uint64(1)<<maxExistingLenBits, 64) }

func (w *World) bvsle(a, b *Term) *Term { return w.ts.App("bvsle", SBool, a, b) }
func (w *World) bvslt(a, b *Term) *Term { return w.ts.App("bvslt", SBool, a, b) }
func (w *World) bvult(a, b *Term) *Term { return w.ts.App("bvult", SBool, a, b) }
func (w *World) bvule(a, b *Term) *Term { return w.ts.App("bvule", SBool, a, b) }
func (w *World) intLe(a, b *Term) *Term { return w.ts.App("<=", SBool, a, b) }
func (w *World) intLt(a, b *Term) *Term { return w.ts.App("<", SBool, a, b) }

func (w *World) lenBound() *Term { return w.ts.BV(uint64(1)<<maxLenBits, 64) }

// validFacts returns facts that hold for any Go value of type t represented by
// term v, given that every reference allocated so far is <= alloc.
func (w *World) validFacts(v *Term, t types.Type, alloc *Term, depth int) *Term {
	ts := w.ts
	switch u := t.Underlying().(type) {
	case *types.Pointer, *types.Map, *types.Chan, *types.Signature:
		return ts.And(w.intLe(ts.IntLit(0), v), w.intLe(v, alloc))
	case *types.Basic:
		if w.sortOf(t) == SStr {
			return w.bvult(w.strLen(v), w.existingLenBound())
		}
		if u.Kind() == types.UnsafePointer {
			return ts.And(w.intLe(ts.IntLit(0), v), w.intLe(v, alloc))
		}
	case *types.Slice:
		arr, off, ln, cp := w.sArr(v), w.sOff(v), w.sLen(v), w.sCap(v)
		return ts.And(
			w.intLe(ts.IntLit(0), arr), w.intLe(arr, alloc),
			w.bvult(off, w.existingLenBound()), w.bvule(ln, cp), w.bvult(cp, w.existingLenBound()),
			ts.Implies(ts.Eq(arr, ts.IntLit(0)), ts.Eq(cp, ts.BV(0, 64))),
		)
	case *types.Struct:
		if depth > 3 {
			return ts.True()
		}
		si := w.structOf(t)
		var fs []*Term
		for i := 0; i < u.NumFields(); i++ {
			if _, isArr := u.Field(i).Type().Underlying().(*types.Array); isArr {
				f := w.field(si, v, i)
				fs = append(fs, w.intLe(ts.IntLit(0), f), w.intLe(f, alloc))
				continue
			}
			fs = append(fs, w.validFacts(w.field(si, v, i), u.Field(i).Type(), alloc, depth+1))
		}
		return ts.And(fs...)
	}
	return ts.True()
}

// ---- declarations printing

func (w *World) printDatatypes(sb *strings.Builder) {
	// all datatypes in one mutually recursive block
	var names []string
	for n := range w.structs {
		names = append(names, n)
	}
	sort.Strings(names)
	sb.WriteString("(declare-sort Str 0)\n")
	sb.WriteString("(declare-datatypes ((Slice 0) (Iface 0)")
	for _, n := range names {
		sb.WriteString(" (" + n + " 0)")
	}
	sb.WriteString(") (\n")
	sb.WriteString(" ((mk_slice (s_arr Int) (s_off (_ BitVec 64)) (s_len (_ BitVec 64)) (s_cap (_ BitVec 64))))\n")
	sb.WriteString(" ((iface_nil) (box_other (other_tid Int) (other_ref Int))")
	for _, k := range w.boxOrder {
		b := w.boxes[k]
		fmt.Fprintf(sb, " (%s (un%s %s))", b.ctor, b.ctor, b.payload)
	}
	sb.WriteString(")\n")
	for _, n := range names {
		si := w.structs[n]
		sb.WriteString(" ((mk_" + n)
		for i, f := range si.fnames {
			fmt.Fprintf(sb, " (%s %s)", f, si.fields[i])
		}
		sb.WriteString("))\n")
	}
	sb.WriteString("))\n")
}

// objectFacts: a ugo.Object returned by a call is nil or a well-formed
// object: it never holds a typed nil pointer of one of the module's own object
// types (standing assumption, listed in the evidence).
func (w *World) objectFacts(v *Term, t types.Type, alloc *Term) *Term {
	ts := w.ts
	nt, ok := t.(*types.Named)
	if !ok || nt.Obj().Name() != "Object" || nt.Obj().Pkg() == nil || nt.Obj().Pkg().Path() != "github.com/ozanh/ugo" {
		return ts.True()
	}
	u, ok := t.Underlying().(*types.Interface)
	if !ok {
		return ts.True()
	}
	var fs []*Term
	for _, k := range w.boxOrder {
		b := w.boxes[k]
		if _, isPtr := b.typ.Underlying().(*types.Pointer); isPtr && types.Implements(b.typ, u) {
			p := w.unboxOrZero(b.typ, v)
			fs = append(fs, ts.Implies(w.isBox(b.typ, v), ts.And(w.intLt(ts.IntLit(0), p), w.intLe(p, alloc))))
		}
	}
	return ts.And(fs...)
}
