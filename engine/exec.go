package main

// Symbolic executor: go/ssa function -> terms + obligations.
// Passive-form execution over the loop-cut CFG, states merged with ite.

import (
	"os"
	"fmt"
	"go/constant"
	"go/token"
	"go/types"
	"math"
	"sort"
	"strings"

	"golang.org/x/tools/go/ssa"
)

// ---------------------------------------------------------------------------
// Values

type Value interface{}

type Tuple []Value

type Closure struct {
	fn       *ssa.Function
	bindings []Value
}

type FuncRef struct{ fn *ssa.Function }

// HavocCall is bound to the verif_call parameter of a contract function when
// the contract is *used* at a call site.
type HavocCall struct{ c *Contract }

type rootKind int

const (
	rField rootKind = iota
	rCell
	rElem
	rGlobal
)

type pathStep struct {
	isField bool
	field   int
	structT types.Type
	idx     *Term
	arrT    types.Type
}

type Addr struct {
	root    rootKind
	structT types.Type // rField: struct type
	field   int
	ref     *Term      // rField, rCell
	cellT   types.Type // rCell: pointee type
	arr     *Term      // rElem
	idx     *Term      // rElem absolute index
	elemT   types.Type // rElem
	glob    *ssa.Global
	path    []pathStep
	curT    types.Type
	nilWhen *Term // non-nil: the pointer is nil exactly when this holds (merge of an address with nil)
}

// (Exec.entryAllocs: allocation counters at the entries of the contract
// functions being used, innermost last; verify mode uses alloc!0.)

type mapIter struct {
	m     *Term
	mt    *types.Map
	str   *Term
	isStr bool
	id    *Term // ghost identity of this iteration (index of its visited set)
	d0    *Term // domain of the map when the iteration started
}

// visComps: ghost components of map iteration: the visited set of every
// iteration (indexed by iteration id) and the latest iteration over each map.
func (x *Exec) visComps(mt *types.Map) (vis, cur string, ks Sort) {
	ks = x.w.sortOf(mt.Key())
	id := sanitize(string(ks))
	return "Gvis_" + id, "Gcur_" + id, ks
}

// ---------------------------------------------------------------------------
// State

type State struct {
	guard *Term
	heap  map[string]*Term
	alloc *Term
	epoch int // components not in heap yet start from the base constant of this epoch
}

func (s *State) clone() *State {
	h := make(map[string]*Term, len(s.heap))
	for k, v := range s.heap {
		h[k] = v
	}
	return &State{guard: s.guard, heap: h, alloc: s.alloc, epoch: s.epoch}
}

// havocAll forgets the whole modelled heap (a call that may modify anything).
func (x *Exec) havocAll(st *State) {
	// variables of the generated contract functions live in cells that no
	// verified code can reach: they keep their values
	type kept struct {
		c specCell
		v *Term
	}
	var keep []kept
	for _, c := range x.specCells {
		keep = append(keep, kept{c, x.w.ts.Select(x.comp(st, c.comp, c.sort), c.ref)})
	}
	// package-level variables named in verifGlobals() are never reassigned
	// (standing assumption): they survive
	consts := map[string]*Term{}
	for _, g := range x.eng.constGlobals() {
		n, s := x.globComp(g)
		consts[n] = x.comp(st, n, s)
	}
	x.epochN++
	st.heap = map[string]*Term{}
	st.epoch = x.epochN
	for n, v := range consts {
		st.heap[n] = v
	}
	for _, k := range keep {
		st.heap[k.c.comp] = x.w.ts.Store(x.comp(st, k.c.comp, k.c.sort), k.c.ref, k.v)
	}
}

// specCell: an address-taken local variable of a generated contract function.
type specCell struct {
	comp string
	sort Sort
	ref  *Term
}

type Obligation struct {
	Name    string
	Kind    string
	Pos     token.Position
	Fn      string
	nAssume int
	goal    *Term
	guard   *Term // path condition of the obligation (nil: unknown)
	IsCover bool
}

type Exec struct {
	dynCount map[string]int
	staleClauses []string // loop clauses that no longer fit the code (renamed variable, other loop shape)
	selectPred int         // >= 0: keep only this incoming edge of the selected return block
	retPreds   map[int]int // return ordinal -> number of live incoming edges
	retSeen    int
	splitTerm     *Term
	splitExcluded map[uint64]bool
	combo []caseChoice
	pins  map[*Term]*Term // loop split: term -> the constant it is fixed to in this run
	// panic mode (contract clause `panics P(args)`): a violated safety
	// condition, a call into unknown code or an explicit panic is allowed, but
	// only in a state satisfying P; execution continues on the other paths
	panicFn    *ssa.Function
	panicArgs  []Value
	panicKnown map[int]bool
	entryAllocs []*Term
	epochDef    map[int][]epochPart
	specCells   []specCell
	w        *World
	prog     *ssa.Program
	eng      *Engine
	compSort map[string]Sort
	assumes  []*Term
	assumeID map[int]bool
	obls     []*Obligation
	oblNames map[string]int
	stack    []*ssa.Function
	// verification target
	target     *Contract
	targetFn   *ssa.Function
	useMode    int // >0 while executing a contract function in "use" mode
	specDepth  int // >0 while executing spec code (no safety obligations)
	bounded    []string
	notes      map[string]bool
	inlineMax  int
	curFn      *ssa.Function
	curPos     token.Pos
	panicsOnly map[string]bool

	useSite          ssa.Instruction
	lastHavocResult  Value
	pendingModifies  []*Addr
	pendingModComps  []string
	declaredModifies []modEntry
	preCount         int
	modCache         map[*ssa.Function]modset
	inputs           []Value
	epochN           int
	caseTag          string
	curUse           *Contract
	globalsSeen      map[string]*ssa.Global
	noOpaqueDispatch int
	pendingRows      []modEntry
	facts            map[int]map[int]bool
	quantDepth       int
	selectReturn     int // >= 0: keep only this return point of the target call
	numReturns       int
	oblAtReturn      int
	entryState       *State
	oldCache         map[string]Value
	constRefs        []*Term
	splitPathRun     bool
	pendingAll       bool
	declaredAll      bool
	baseAlloc        map[int]*Term
	curLoopState     *State
	allocChecked     bool    // C18: allocation sizes must be justified
	allocLimit       uint64  // 0: the decoder limit (1 MiB + 64)
	availLens        []*Term // lengths of input already in hand (len of []byte inputs, Len() of readers)
}

type modEntry struct {
	addr  *Addr
	rowOf *Term // whole backing row of this array reference ...
	comp  string // ... in this element component
}

func NewExec(eng *Engine) *Exec {
	return &Exec{w: NewWorld(), prog: eng.prog, eng: eng, compSort: map[string]Sort{},
		assumeID: map[int]bool{}, oblNames: map[string]int{}, notes: map[string]bool{}, inlineMax: 8, modCache: map[*ssa.Function]modset{}, selectReturn: -1, selectPred: -1}
}

func (x *Exec) note(format string, a ...any) { x.notes[fmt.Sprintf(format, a...)] = true }

func (x *Exec) assume(t *Term) {
	if t.isTrue() || x.assumeID[t.id] {
		return
	}
	x.recordFacts(t)
	if t.open {
		// produced while translating a quantifier body (validity facts about
		// values that depend on the bound variable): cannot be a global fact
		return
	}
	x.assumeID[t.id] = true
	x.assumes = append(x.assumes, t)
}

func (x *Exec) assumeIn(st *State, t *Term) { x.assume(x.w.ts.Implies(st.guard, t)) }

func (x *Exec) position(p token.Pos) token.Position {
	if p == token.NoPos {
		p = x.curPos
	}
	return x.prog.Fset.Position(p)
}

func (x *Exec) oblige(st *State, kind, detail string, cond *Term, pos token.Pos) {
	ts := x.w.ts
	cond = x.dropKnown(st.guard, cond)
	goal := ts.Implies(st.guard, x.skolemize(cond))
	if goal.isTrue() {
		return
	}
	fn := ""
	if x.curFn != nil {
		fn = x.curFn.RelString(nil)
	} else if x.target != nil {
		fn = x.target.Name
	}
	base := fmt.Sprintf("%s/%s:%s", shortFn(fn), kind, detail)
	n := x.oblNames[base]
	x.oblNames[base] = n + 1
	name := base
	if n > 0 {
		name = fmt.Sprintf("%s#%d", base, n)
	}
	name += x.caseTag
	x.obls = append(x.obls, &Obligation{Name: name, Kind: kind, Pos: x.position(pos), Fn: fn, nAssume: len(x.assumes), goal: goal, guard: st.guard})
	// after the check, execution continues only if it held
	x.assume(goal)
}

func shortFn(s string) string {
	s = strings.ReplaceAll(s, "github.com/ozanh/ugo/", "")
	s = strings.ReplaceAll(s, "github.com/ozanh/ugo.", "")
	return s
}

// safety obligation (skipped in spec code)
func (x *Exec) safety(st *State, kind string, instr ssa.Instruction, detail string, cond *Term) {
	if x.specDepth > 0 {
		return
	}
	if x.panicFn != nil && x.useMode == 0 {
		x.panicPoint(st, instr.Pos(), kind+":"+detail, cond)
		return
	}
	if kind == "nil" && cond.kind == kApp && cond.op == "not" {
		// reference known to be a fresh allocation
		eq := cond.args[0]
		if eq.kind == kApp && eq.op == "=" {
			for _, a := range eq.args {
				if a.kind == kLeaf && strings.HasPrefix(a.op, "ref_") {
					return
				}
			}
		}
	}
	x.oblige(st, kind, detail, cond, instr.Pos())
}

// panicPoint: in panic mode, the state must satisfy the panic predicate
// wherever a panic may be raised (cond false, or unconditionally when cond is
// nil); afterwards only the non-panicking paths continue.
func (x *Exec) panicPoint(st *State, pos token.Pos, detail string, cond *Term) {
	ts := x.w.ts
	if cond != nil && cond.isTrue() {
		return
	}
	p := x.evalPanicPred(st)
	if os.Getenv("GOVC_PDEBUG") != "" && !x.panicKnown[p.id] {
		var names []string
		for n := range collectLeaves([]*Term{p}) {
			names = append(names, n)
		}
		sort.Strings(names)
		fmt.Fprintf(os.Stderr, "PDEBUG %s: P#%d leaves %v\n", detail, p.id, names)
	}
	if !x.panicKnown[p.id] && !p.isTrue() {
		goal := p
		if cond != nil {
			goal = ts.Or(cond, p)
		}
		// (oblige assumes its goal afterwards; harmless: cond is assumed below anyway)
		x.oblige(st, "panicpt", detail, goal, pos)
	}
	if cond != nil {
		x.assumeIn(st, cond)
	}
}

func (x *Exec) evalPanicPred(st *State) *Term {
	x.specDepth++
	saved := x.panicFn
	x.panicFn = nil
	defer func() { x.specDepth--; x.panicFn = saved }()
	res, nst := x.callFunction(saved, x.panicArgs, nil, st.clone())
	if nst == nil {
		unsup("panic predicate does not return")
	}
	return res[0].(*Term)
}

// establishPanicPred: the predicate is proved once at a point that dominates
// what follows (function entry, loop head); identical instances later on are
// then known without a query.
func (x *Exec) establishPanicPred(st *State, pos token.Pos, where string) {
	if x.panicFn == nil || x.useMode != 0 || x.specDepth > 0 {
		return
	}
	p := x.evalPanicPred(st)
	if x.panicKnown[p.id] {
		return
	}
	x.oblige(st, "panicpt", where, p, pos)
	x.panicKnown[p.id] = true
}

// ---------------------------------------------------------------------------
// Heap components

func (x *Exec) comp(st *State, name string, s Sort) *Term {
	if t, ok := st.heap[name]; ok {
		return t
	}
	x.compSort[name] = s
	t := x.baseOf(st.epoch, name, s, st.alloc)
	st.heap[name] = t
	return t
}

// epochPart: a merged epoch is, for components no merged path had touched,
// the path-wise choice between the base components of the merged epochs.
type epochPart struct {
	cond  *Term
	epoch int
}

func (x *Exec) baseOf(epoch int, name string, s Sort, alloc *Term) *Term {
	if parts, ok := x.epochDef[epoch]; ok {
		var cur *Term
		for i := len(parts) - 1; i >= 0; i-- {
			v := x.baseOf(parts[i].epoch, name, s, alloc)
			if cur == nil {
				cur = v
			} else {
				cur = x.w.ts.Ite(parts[i].cond, v, cur)
			}
		}
		return cur
	}
	t := x.w.Const(fmt.Sprintf("%s!%d", name, epoch), s)
	if epoch == 0 {
		x.noteBase(t, x.w.Const("alloc!0", SInt))
	} else {
		x.noteBase(t, alloc)
	}
	return t
}

// noteBase records, for a base heap component (initial or havoced), a bound on
// the references it can contain: everything stored in it was allocated before.
func (x *Exec) noteBase(t *Term, alloc *Term) {
	if x.baseAlloc == nil {
		x.baseAlloc = map[int]*Term{}
	}
	if _, ok := x.baseAlloc[t.id]; !ok {
		x.baseAlloc[t.id] = alloc
	}
}

// baseValid: the value found at idx in the base component under a store chain
// is a valid value of typ with respect to the allocation bound of that base.
func (x *Exec) baseValid(comp *Term, typ types.Type, idx ...*Term) {
	t := comp
	for t.kind == kApp && t.op == "store" {
		t = t.args[0]
	}
	if t.kind != kLeaf {
		return
	}
	al, ok := x.baseAlloc[t.id]
	if !ok {
		return
	}
	v := t
	for _, i := range idx {
		if _, _, isArr := v.sort.arrParts(); !isArr {
			return
		}
		v = x.w.ts.Select(v, i)
	}
	x.assume(x.w.validFacts(v, typ, al, 0))
}

func (x *Exec) fieldComp(structT types.Type, i int) (string, Sort) {
	si := x.w.structOf(structT)
	return fmt.Sprintf("H_%s_%d_%s", si.name, i, sanitize(si.typ.Field(i).Name())), SArr(SInt, si.fields[i])
}
func (x *Exec) cellComp(t types.Type) (string, Sort) {
	s := x.w.sortOf(t)
	return "Hc_" + sanitize(string(s)), SArr(SInt, s)
}
func (x *Exec) elemComp(t types.Type) (string, Sort) {
	s := x.w.sortOf(t)
	return "E_" + sanitize(string(s)), SArr(SInt, SArr(SBV(64), s))
}
func (x *Exec) globComp(g *ssa.Global) (string, Sort) {
	t := g.Type().(*types.Pointer).Elem()
	n := "G_" + sanitize(g.Pkg.Pkg.Name()+"."+g.Name())
	if x.globalsSeen == nil {
		x.globalsSeen = map[string]*ssa.Global{}
	}
	x.globalsSeen[n] = g
	return n, x.w.sortOf(t)
}
func (x *Exec) mapComps(mt *types.Map) (dom, val, ln string, ks, vs Sort) {
	ks, vs = x.w.sortOf(mt.Key()), x.w.sortOf(mt.Elem())
	id := sanitize(string(ks)) + "__" + sanitize(string(vs))
	return "Md_" + id, "Mv_" + id, "Ml", ks, vs
}

func (x *Exec) havocComp(st *State, name string) {
	s, ok := x.compSort[name]
	if !ok {
		return
	}
	st.heap[name] = x.w.Fresh(name, s)
	x.noteBase(st.heap[name], st.alloc)
}

// ---------------------------------------------------------------------------
// Address operations

func (x *Exec) toAddr(v Value, ptrT types.Type) *Addr {
	switch a := v.(type) {
	case *Addr:
		return a
	case *Term:
		pt, ok := ptrT.Underlying().(*types.Pointer)
		if !ok {
			unsup("toAddr on non-pointer type %s", ptrT)
		}
		return &Addr{root: rCell, ref: a, cellT: pt.Elem(), curT: pt.Elem()}
	}
	unsup("toAddr: unexpected value %T", v)
	return nil
}

func (x *Exec) loadCellStruct(st *State, ref *Term, t types.Type) *Term {
	si := x.w.structOf(t)
	u := t.Underlying().(*types.Struct)
	vals := make([]*Term, u.NumFields())
	for i := range vals {
		n, s := x.fieldComp(t, i)
		vals[i] = x.w.ts.Select(x.comp(st, n, s), ref)
	}
	return x.w.mkStruct(si, vals)
}

func (x *Exec) load(st *State, a *Addr) *Term {
	ts := x.w.ts
	var root *Term
	var rt types.Type
	if a.root == rCell {
		if _, ok := a.cellT.Underlying().(*types.Struct); ok {
			// pointer to struct: use field components; shortcut when path starts with a field
			if len(a.path) > 0 && a.path[0].isField {
				b := &Addr{root: rField, structT: a.cellT, field: a.path[0].field, ref: a.ref, path: a.path[1:], curT: a.curT}
				return x.load(st, b)
			}
			root, rt = x.loadCellStruct(st, a.ref, a.cellT), a.cellT
		}
	}
	if root == nil {
		switch a.root {
		case rField:
			n, s := x.fieldComp(a.structT, a.field)
			root, rt = ts.Select(x.comp(st, n, s), a.ref), a.structT.Underlying().(*types.Struct).Field(a.field).Type()
		case rCell:
			n, s := x.cellComp(a.cellT)
			root, rt = ts.Select(x.comp(st, n, s), a.ref), a.cellT
		case rElem:
			n, s := x.elemComp(a.elemT)
			root, rt = ts.Select(ts.Select(x.comp(st, n, s), a.arr), a.idx), a.elemT
		case rGlobal:
			n, s := x.globComp(a.glob)
			root, rt = x.comp(st, n, s), a.glob.Type().(*types.Pointer).Elem()
		}
	}
	v := root
	t := rt
	for _, p := range a.path {
		if p.isField {
			si := x.w.structOf(p.structT)
			v = x.w.field(si, v, p.field)
			t = p.structT.Underlying().(*types.Struct).Field(p.field).Type()
		} else {
			v = ts.Select(v, p.idx)
			t = p.arrT.Underlying().(*types.Array).Elem()
		}
	}
	_ = t
	return v
}

func (x *Exec) updatePath(old *Term, path []pathStep, nv *Term) *Term {
	if len(path) == 0 {
		return nv
	}
	p := path[0]
	ts := x.w.ts
	if p.isField {
		si := x.w.structOf(p.structT)
		inner := x.updatePath(x.w.field(si, old, p.field), path[1:], nv)
		return x.w.setField(si, old, p.field, inner)
	}
	inner := x.updatePath(ts.Select(old, p.idx), path[1:], nv)
	return ts.Store(old, p.idx, inner)
}

// store writes nv at address a under the state's guard (state is per-block so
// unconditional update of this block's heap map is right).
func (x *Exec) store(st *State, a *Addr, nv *Term) {
	ts := x.w.ts
	if a.root == rCell {
		if u, ok := a.cellT.Underlying().(*types.Struct); ok {
			if len(a.path) > 0 && a.path[0].isField {
				b := &Addr{root: rField, structT: a.cellT, field: a.path[0].field, ref: a.ref, path: a.path[1:], curT: a.curT}
				x.store(st, b, nv)
				return
			}
			if len(a.path) == 0 {
				si := x.w.structOf(a.cellT)
				for i := 0; i < u.NumFields(); i++ {
					n, s := x.fieldComp(a.cellT, i)
					if at, isArr := u.Field(i).Type().Underlying().(*types.Array); isArr {
						// embedded array: the row stays where it is, its contents are overwritten.
						// Only assignment of a zero array is modelled (struct values carry no array contents).
						row := ts.Select(x.comp(st, n, s), a.ref)
						if _, isStruct := at.Elem().Underlying().(*types.Struct); isStruct {
							x.note("whole-struct assignment to %s: elements of the embedded array of structs are not reset in the model", shortTypeString(a.cellT))
							continue
						}
						en, es := x.elemComp(at.Elem())
						_, rowSort, _ := es.arrParts()
						st.heap[en] = ts.Store(x.comp(st, en, es), row, ts.App("(as const "+string(rowSort)+")", rowSort, x.w.zeroOf(at.Elem())))
						continue
					}
					st.heap[n] = ts.Store(x.comp(st, n, s), a.ref, x.w.field(si, nv, i))
				}
				return
			}
			unsup("store through index path on struct cell")
		}
	}
	switch a.root {
	case rField:
		n, s := x.fieldComp(a.structT, a.field)
		h := x.comp(st, n, s)
		old := ts.Select(h, a.ref)
		st.heap[n] = ts.Store(h, a.ref, x.updatePath(old, a.path, nv))
	case rCell:
		n, s := x.cellComp(a.cellT)
		h := x.comp(st, n, s)
		old := ts.Select(h, a.ref)
		st.heap[n] = ts.Store(h, a.ref, x.updatePath(old, a.path, nv))
	case rElem:
		n, s := x.elemComp(a.elemT)
		h := x.comp(st, n, s)
		row := ts.Select(h, a.arr)
		old := ts.Select(row, a.idx)
		st.heap[n] = ts.Store(h, a.arr, ts.Store(row, a.idx, x.updatePath(old, a.path, nv)))
	case rGlobal:
		n, s := x.globComp(a.glob)
		old := x.comp(st, n, s)
		st.heap[n] = x.updatePath(old, a.path, nv)
	}
}

// allocRef returns a fresh non-nil reference.
func (x *Exec) allocRef(st *State, hint string) *Term {
	ts := x.w.ts
	r := x.w.Fresh("ref_"+hint, SInt)
	x.assume(ts.Eq(r, ts.App("+", SInt, st.alloc, ts.IntLit(1))))
	st.alloc = r
	return r
}

// ---------------------------------------------------------------------------
// Constants

func (x *Exec) constVal(c *ssa.Const) Value {
	ts := x.w.ts
	t := c.Type()
	if c.Value == nil {
		// zero value / nil
		if b, ok := t.Underlying().(*types.Basic); ok && b.Kind() == types.UntypedNil {
			return ts.IntLit(0)
		}
		return x.w.zeroOf(t)
	}
	s := x.w.sortOf(t)
	switch {
	case s == SBool:
		return ts.BoolLit(constant.BoolVal(c.Value))
	case s.bvWidth() > 0:
		w := s.bvWidth()
		v := constant.ToInt(c.Value)
		if i, ok := constant.Int64Val(v); ok {
			return ts.BV(uint64(i), w)
		}
		if u, ok := constant.Uint64Val(v); ok {
			return ts.BV(u, w)
		}
		unsup("integer constant out of range: %s", c.Value)
	case s == SF64:
		f, _ := constant.Float64Val(constant.ToFloat(c.Value))
		return x.f64Lit(f)
	case s == SF32:
		f, _ := constant.Float32Val(constant.ToFloat(c.Value))
		return x.f32Lit(f)
	case s == SStr:
		return x.w.strConst(constant.StringVal(c.Value))
	}
	unsup("constant of type %s", t)
	return nil
}

func (x *Exec) f64Lit(f float64) *Term {
	b := math.Float64bits(f)
	return x.w.ts.Leaf(fmt.Sprintf("(fp #b%01b #b%011b #x%013x)", b>>63, (b>>52)&0x7ff, b&((1<<52)-1)), SF64)
}
func (x *Exec) f32Lit(f float32) *Term {
	b := math.Float32bits(f)
	return x.w.ts.Leaf(fmt.Sprintf("(fp #b%01b #b%08b #b%023b)", b>>31, (b>>23)&0xff, b&((1<<23)-1)), SF32)
}

// ---------------------------------------------------------------------------
// Frames and function execution

type Frame struct {
	narrowed bool
	fn     *ssa.Function
	vals   map[ssa.Value]Value
	loops  *loopInfo
	defers []*ssa.Defer
	deferGuard map[*ssa.Defer]*Term
}

type retPoint struct {
	st   *State
	vals []Value
	rel  *Term
}

func (x *Exec) get(fr *Frame, v ssa.Value) Value {
	switch c := v.(type) {
	case *ssa.Const:
		return x.constVal(c)
	case *ssa.Global:
		return &Addr{root: rGlobal, glob: c, curT: c.Type().(*types.Pointer).Elem()}
	case *ssa.Function:
		return &FuncRef{fn: c}
	case *ssa.Builtin:
		return c
	}
	r, ok := fr.vals[v]
	if !ok {
		unsup("value %s (%T) not available in %s", v.Name(), v, fr.fn.Name())
	}
	return r
}

func (x *Exec) term(fr *Frame, v ssa.Value) *Term {
	val := x.get(fr, v)
	t, ok := val.(*Term)
	if !ok {
		switch a := val.(type) {
		case *Addr:
			return x.addrToRef(a)
		case *FuncRef:
			return x.w.Const("fn_"+sanitize(a.fn.String()), SInt)
		case *Closure:
			return x.w.Fresh("closure", SInt)
		}
		unsup("value %s is not a term (%T)", v.Name(), val)
	}
	return t
}

// addrToRef: interior pointers that escape into term positions.
func (x *Exec) addrToRef(a *Addr) *Term {
	if a.root == rCell && len(a.path) == 0 {
		return a.ref
	}
	unsup("interior pointer escapes")
	return nil
}

// mergeVals builds ite(c, a, b) for executor values.
func (x *Exec) mergeVals(c *Term, a, b Value) Value {
	ts := x.w.ts
	if a == nil {
		return b
	}
	if b == nil {
		return a
	}
	switch av := a.(type) {
	case *Term:
		bv, ok := b.(*Term)
		if !ok {
			if ba, ok := b.(*Addr); ok {
				if av.kind == kLeaf && av.op == "0" {
					m := *ba
					nw := c
					if ba.nilWhen != nil {
						nw = ts.Or(c, ba.nilWhen)
					}
					m.nilWhen = nw
					return &m
				}
				return ts.Ite(c, av, x.addrToRef(ba))
			}
			unsup("merge term with %T", b)
		}
		return ts.Ite(c, av, bv)
	case Tuple:
		bv := b.(Tuple)
		out := make(Tuple, len(av))
		for i := range av {
			out[i] = x.mergeVals(c, av[i], bv[i])
		}
		return out
	case *Addr:
		switch bv := b.(type) {
		case *Addr:
			if m := x.mergeAddr(c, av, bv); m != nil {
				return m
			}
			return ts.Ite(c, x.addrToRef(av), x.addrToRef(bv))
		case *Term:
			if bv.kind == kLeaf && bv.op == "0" {
				// address or nil
				m := *av
				nw := ts.Not(c)
				if av.nilWhen != nil {
					nw = ts.Or(nw, av.nilWhen)
				}
				m.nilWhen = nw
				return &m
			}
			return ts.Ite(c, x.addrToRef(av), bv)
		}
	case *FuncRef:
		if bv, ok := b.(*FuncRef); ok && bv.fn == av.fn {
			return av
		}
	case *HavocCall:
		return av
	case *mapIter:
		return av
	case *Closure:
		if bv, ok := b.(*Closure); ok && bv.fn == av.fn {
			return av
		}
	}
	unsup("cannot merge values %T / %T", a, b)
	return nil
}

func (x *Exec) mergeAddr(c *Term, a, b *Addr) *Addr {
	ts := x.w.ts
	if a.root != b.root || len(a.path) != len(b.path) || a.field != b.field || a.glob != b.glob {
		return nil
	}
	if a.structT != nil && !types.Identical(a.structT, b.structT) {
		return nil
	}
	if a.cellT != nil && !types.Identical(a.cellT, b.cellT) {
		return nil
	}
	if a.elemT != nil && !types.Identical(a.elemT, b.elemT) {
		return nil
	}
	m := *a
	if a.ref != nil {
		m.ref = ts.Ite(c, a.ref, b.ref)
	}
	if a.arr != nil {
		m.arr = ts.Ite(c, a.arr, b.arr)
		m.idx = ts.Ite(c, a.idx, b.idx)
	}
	if a.nilWhen != nil || b.nilWhen != nil {
		an, bn := ts.False(), ts.False()
		if a.nilWhen != nil {
			an = a.nilWhen
		}
		if b.nilWhen != nil {
			bn = b.nilWhen
		}
		m.nilWhen = ts.Ite(c, an, bn)
	}
	m.path = make([]pathStep, len(a.path))
	for i := range a.path {
		pa, pb := a.path[i], b.path[i]
		if pa.isField != pb.isField || pa.field != pb.field {
			return nil
		}
		m.path[i] = pa
		if !pa.isField {
			m.path[i].idx = ts.Ite(c, pa.idx, pb.idx)
		}
	}
	return &m
}

func (x *Exec) mergeStates(conds []*Term, sts []*State) *State {
	return x.mergeStatesRel(conds, conds, sts)
}

// mergeStatesRel: guards are the absolute path conditions (their disjunction
// is the new guard); rels are mutually exclusive selectors used in the ite
// chains (path conditions relative to the function entry, so merged values
// do not mention the caller's path condition).
func (x *Exec) mergeStatesRel(guards, conds []*Term, sts []*State) *State {
	ts := x.w.ts
	if len(sts) == 1 {
		s := sts[0].clone()
		s.guard = guards[0]
		return s
	}
	out := &State{heap: map[string]*Term{}, epoch: sts[0].epoch}
	for _, s := range sts[1:] {
		if s.epoch != out.epoch {
			x.epochN++
			out.epoch = x.epochN
			if x.epochDef == nil {
				x.epochDef = map[int][]epochPart{}
			}
			parts := make([]epochPart, len(sts))
			for i := range sts {
				parts[i] = epochPart{conds[i], sts[i].epoch}
			}
			x.epochDef[out.epoch] = parts
			break
		}
	}
	out.guard = ts.Or(guards...)
	keys := map[string]bool{}
	for _, s := range sts {
		for k := range s.heap {
			keys[k] = true
		}
	}
	for k := range keys {
		var cur *Term
		for i := len(sts) - 1; i >= 0; i-- {
			v := x.comp(sts[i], k, x.compSort[k])
			if cur == nil {
				cur = v
			} else {
				cur = ts.Ite(conds[i], v, cur)
			}
		}
		out.heap[k] = cur
	}
	var al *Term
	for i := len(sts) - 1; i >= 0; i-- {
		if al == nil {
			al = sts[i].alloc
		} else {
			al = ts.Ite(conds[i], sts[i].alloc, al)
		}
	}
	out.alloc = al
	return out
}

// symbolicValue creates a fresh symbolic value of Go type t with validity facts.
func (x *Exec) symbolicValue(st *State, name string, t types.Type) Value {
	if tup, ok := t.(*types.Tuple); ok {
		out := make(Tuple, tup.Len())
		for i := range out {
			out[i] = x.symbolicValue(st, fmt.Sprintf("%s_%d", name, i), tup.At(i).Type())
		}
		return out
	}
	v := x.w.Fresh(name, x.w.sortOf(t))
	x.assume(x.w.validFacts(v, t, st.alloc, 0))
	return v
}

// callFunction symbolically executes fn with args; returns results and final state.
// A nil state result means no path returns.
func (x *Exec) callFunction(fn *ssa.Function, args []Value, bindings []Value, st *State) ([]Value, *State) {
	if fn.Blocks == nil {
		unsup("function %s has no body", fn)
	}
	if !strings.HasPrefix(fn.Name(), "verif_c_") {
		for _, f := range x.stack {
			if f == fn {
				unsup("recursive inlining of %s", fn)
			}
		}
	}
	x.stack = append(x.stack, fn)
	savedFn, savedPos := x.curFn, x.curPos
	spec := x.eng.isSpecFn(fn)
	if spec {
		x.specDepth++
	} else if x.specDepth == 0 {
		x.curFn = fn
	}
	defer func() {
		x.stack = x.stack[:len(x.stack)-1]
		x.curFn, x.curPos = savedFn, savedPos
		if spec {
			x.specDepth--
		}
	}()

	fr := &Frame{fn: fn, vals: map[ssa.Value]Value{}}
	if fn == x.targetFn && x.entryState == nil {
		x.entryState = st.clone()
	}
	for i, p := range fn.Params {
		fr.vals[p] = args[i]
	}
	for i, fv := range fn.FreeVars {
		fr.vals[fv] = bindings[i]
	}
	fr.loops = analyzeLoops(fn)
	if fn == x.targetFn && x.target != nil && x.oldCache == nil {
		// old(e) of loop clauses: evaluated now, in the entry state; ghost
		// snapshots they allocate become part of the state the body starts from
		x.oldCache = map[string]Value{}
		for _, ls := range x.target.Loops {
			for _, hn := range ls.oldFns {
				var hargs []Value
				for _, pn := range ls.paramsOf[hn] {
					var v Value
					for _, p := range fn.Params {
						if p.Name() == pn {
							v = fr.vals[p]
						}
					}
					if v == nil {
						unsup("old(): %s is not a parameter", pn)
					}
					hargs = append(hargs, v)
				}
				res, nst := x.callFunction(ls.oldSSA[hn], hargs, nil, st)
				if nst == nil {
					unsup("old() helper does not return")
				}
				st.heap, st.alloc = nst.heap, nst.alloc
				x.oldCache[hn] = res[0]
			}
		}
	}

	order := fr.loops.order
	// path splitting: execute only the selected acyclic path of the target function
	var pathNext map[*ssa.BasicBlock]*ssa.BasicBlock
	isTargetCall := fn == x.targetFn && x.target != nil && len(x.stack) >= 2 && x.stack[len(x.stack)-2] == x.target.harness
	if isTargetCall && x.target.SplitPaths {
		if len(fr.loops.list) > 0 {
			unsup("split paths on a function with loops")
		}
		paths := enumeratePaths(fn, 128)
		if paths == nil {
			unsup("split paths: too many paths")
		}
		x.numReturns = len(paths)
		x.splitPathRun = true
		sel := x.selectReturn
		if sel < 0 || sel >= len(paths) {
			sel = 0
		}
		pathNext = map[*ssa.BasicBlock]*ssa.BasicBlock{}
		p := paths[sel]
		for i := 0; i+1 < len(p); i++ {
			pathNext[p[i]] = p[i+1]
		}
		pathNext[p[len(p)-1]] = nil
		fr.narrowed = true
	}
	onPath := func(from, to *ssa.BasicBlock) bool {
		if pathNext == nil {
			return true
		}
		n, ok := pathNext[from]
		return ok && n == to
	}
	out := map[*ssa.BasicBlock]*State{}                     // state at end of block
	edgeCond := map[[2]int]*Term{}                          // (from,to) -> condition
	edgeRel := map[[2]int]*Term{}                           // (from,to) -> condition relative to the entry
	rel := map[*ssa.BasicBlock]*Term{}
	headerHavoc := map[*ssa.BasicBlock]map[*ssa.Phi]*Term{} // not used outside; kept for clarity
	_ = headerHavoc
	var rets []retPoint
	ts := x.w.ts

	for _, b := range order {
		var st0 *State
		var inConds []*Term
		var inRels []*Term
		var inStates []*State
		var inPreds []*ssa.BasicBlock
		if b == fn.Blocks[0] {
			st0 = st.clone()
			rel[b] = ts.True()
		} else {
			for _, p := range b.Preds {
				if fr.loops.isBackEdge(p, b) {
					continue
				}
				ps, ok := out[p]
				if !ok {
					continue
				}
				c := edgeCond[[2]int{p.Index, b.Index}]
				if c == nil || c.isFalse() {
					continue
				}
				inConds = append(inConds, c)
				inRels = append(inRels, edgeRel[[2]int{p.Index, b.Index}])
				inStates = append(inStates, ps)
				inPreds = append(inPreds, p)
			}
			if len(inStates) == 0 {
				continue // unreachable
			}
			if isTargetCall && x.target.SplitPreds && !x.target.SplitPaths {
				if _, isRet := b.Instrs[len(b.Instrs)-1].(*ssa.Return); isRet {
					if x.retPreds == nil {
						x.retPreds = map[int]int{}
					}
					x.retPreds[x.retSeen] = len(inStates)
					if x.retSeen == x.selectReturn && x.selectPred >= 0 && x.selectPred < len(inStates) {
						k := x.selectPred
						inConds, inRels, inStates, inPreds = inConds[k:k+1], inRels[k:k+1], inStates[k:k+1], inPreds[k:k+1]
						fr.narrowed = true
					}
					x.retSeen++
				}
			}
			st0 = x.mergeStatesRel(inConds, inRels, inStates)
			rel[b] = ts.Or(inRels...)
		}
		// phis
		phiVals := map[*ssa.Phi]Value{}
		for _, ins := range b.Instrs {
			phi, ok := ins.(*ssa.Phi)
			if !ok {
				break
			}
			var cur Value
			for i := len(inPreds) - 1; i >= 0; i-- {
				p := inPreds[i]
				var ev Value
				for j, bp := range b.Preds {
					if bp == p {
						ev = x.get(fr, phi.Edges[j])
						break
					}
				}
				if cur == nil {
					cur = ev
				} else {
					cur = x.mergeVals(inRels[i], ev, cur)
				}
			}
			phiVals[phi] = cur
		}
		for phi, v := range phiVals {
			fr.vals[phi] = v
		}
		if lp := fr.loops.headers[b]; lp != nil {
			x.enterLoop(fr, lp, st0)
		}
		// body
		alive := true
		for _, ins := range b.Instrs {
			if _, ok := ins.(*ssa.Phi); ok {
				continue
			}
			if p := ins.Pos(); p != token.NoPos && x.specDepth == 0 {
				x.curPos = p
			}
			switch in := ins.(type) {
			case *ssa.If:
				c := x.term(fr, in.Cond)
				if len(x.pins) > 0 {
					c = x.w.ts.Replace(c, x.pins)
				}
				if x.splitTerm != nil && c.kind == kApp && c.op == "=" && len(c.args) == 2 {
					for k := 0; k < 2; k++ {
						if c.args[k] == x.splitTerm {
							if v, ok := c.args[1-k].bvConst(); ok && x.splitExcluded[v] {
								c = x.w.ts.False()
							}
							break
						}
					}
				}
				edgeCond[[2]int{b.Index, b.Succs[0].Index}] = ts.And(st0.guard, c)
				edgeCond[[2]int{b.Index, b.Succs[1].Index}] = ts.And(st0.guard, ts.Not(c))
				edgeRel[[2]int{b.Index, b.Succs[0].Index}] = ts.And(rel[b], c)
				edgeRel[[2]int{b.Index, b.Succs[1].Index}] = ts.And(rel[b], ts.Not(c))
				if b.Succs[0] == b.Succs[1] {
					edgeCond[[2]int{b.Index, b.Succs[0].Index}] = st0.guard
					edgeRel[[2]int{b.Index, b.Succs[0].Index}] = rel[b]
				}
				for _, s := range b.Succs {
					if !onPath(b, s) {
						edgeCond[[2]int{b.Index, s.Index}] = ts.False()
					}
				}
			case *ssa.Jump:
				edgeCond[[2]int{b.Index, b.Succs[0].Index}] = st0.guard
				edgeRel[[2]int{b.Index, b.Succs[0].Index}] = rel[b]
			case *ssa.Return:
				vals := make([]Value, len(in.Results))
				for i, r := range in.Results {
					vals[i] = x.get(fr, r)
				}
				rets = append(rets, retPoint{st: st0, vals: vals, rel: rel[b]})
				alive = false
			case *ssa.Panic:
				x.doPanic(fr, in, st0)
				fr.narrowed = true
				alive = false
			default:
				g0 := st0.guard
				x.step(fr, ins, st0)
				if st0.guard != g0 {
					fr.narrowed = true
				}
			}
			if !alive {
				break
			}
		}
		out[b] = st0
		// back edges leaving this block
		for _, s := range b.Succs {
			if fr.loops.isBackEdge(b, s) {
				c := edgeCond[[2]int{b.Index, s.Index}]
				if c != nil && !c.isFalse() {
					x.backEdge(fr, fr.loops.headers[s], b, c, st0)
				}
			}
		}
	}
	if len(rets) == 0 {
		return nil, nil
	}
	if fn == x.targetFn && x.target != nil && x.target.SplitRet && !x.target.SplitPaths && len(x.stack) >= 2 && x.stack[len(x.stack)-2] == x.target.harness {
		x.numReturns = len(rets)
		x.oblAtReturn = len(x.obls)
		if x.selectReturn >= 0 && x.selectReturn < len(rets) {
			rets = rets[x.selectReturn : x.selectReturn+1]
			fr.narrowed = true
		}
	}
	conds := make([]*Term, len(rets))
	rels := make([]*Term, len(rets))
	sts := make([]*State, len(rets))
	for i, r := range rets {
		conds[i] = r.st.guard
		rels[i] = r.rel
		sts[i] = r.st
	}
	final := x.mergeStatesRel(conds, rels, sts)
	if !fr.narrowed && len(fr.loops.list) == 0 {
		// every path from the entry reaches a return: the disjunction of the
		// return guards is the entry guard
		final.guard = st.guard
	}
	nres := len(rets[0].vals)
	res := make([]Value, nres)
	for k := 0; k < nres; k++ {
		var cur Value
		for i := len(rets) - 1; i >= 0; i-- {
			if cur == nil {
				cur = rets[i].vals[k]
			} else {
				cur = x.mergeVals(rels[i], rets[i].vals[k], cur)
			}
		}
		res[k] = cur
	}
	return res, final
}

func (x *Exec) doPanic(fr *Frame, in *ssa.Panic, st *State) {
	if x.specDepth > 0 {
		return
	}
	// explicit panic: allowed kinds are handled by the panic-effect analysis; here: obligation
	desc := "explicit"
	if mi, ok := in.X.(*ssa.MakeInterface); ok {
		desc = shortTypeString(mi.X.Type())
	}
	if x.panicFn != nil && x.useMode == 0 {
		x.panicPoint(st, in.Pos(), "panic:"+desc, nil)
		st.guard = x.w.ts.False()
		return
	}
	if x.target != nil && contains(x.target.PanicsOnly, desc) {
		x.note("controlled panic with a %s value: assumed to be recovered by the caller named in the contract (recover is not modelled)", desc)
		return
	}
	x.oblige(st, "panic", desc, x.w.ts.False(), in.Pos())
}

// ---------------------------------------------------------------------------
// Loop analysis

type loop struct {
	header  *ssa.BasicBlock
	blocks  map[*ssa.BasicBlock]bool
	ordinal int
	minPos  token.Pos
	depth   int
	// per-execution data
	decr0   []*Term
	autoInv []autoInv
}

type autoInv struct {
	phi   *ssa.Phi
	entry *Term
	up    bool
	bound *Term // non-nil: phi < bound or phi == entry
}

type loopInfo struct {
	order   []*ssa.BasicBlock
	headers map[*ssa.BasicBlock]*loop
	back    map[[2]int]bool
	list    []*loop
}

func (li *loopInfo) isBackEdge(from, to *ssa.BasicBlock) bool {
	return li.back[[2]int{from.Index, to.Index}]
}

func analyzeLoops(fn *ssa.Function) *loopInfo {
	li := &loopInfo{headers: map[*ssa.BasicBlock]*loop{}, back: map[[2]int]bool{}}
	for _, b := range fn.Blocks {
		for _, s := range b.Succs {
			if s.Dominates(b) {
				li.back[[2]int{b.Index, s.Index}] = true
				lp := li.headers[s]
				if lp == nil {
					lp = &loop{header: s, blocks: map[*ssa.BasicBlock]bool{s: true}}
					li.headers[s] = lp
					li.list = append(li.list, lp)
				}
				// natural loop body: nodes reaching b without passing s
				stack := []*ssa.BasicBlock{b}
				for len(stack) > 0 {
					n := stack[len(stack)-1]
					stack = stack[:len(stack)-1]
					if lp.blocks[n] {
						continue
					}
					lp.blocks[n] = true
					stack = append(stack, n.Preds...)
				}
			}
		}
	}
	// detect retreating edges that are not back edges (irreducible): DFS
	// topological order over forward edges
	indeg := map[*ssa.BasicBlock]int{}
	reach := map[*ssa.BasicBlock]bool{}
	var dfs func(b *ssa.BasicBlock)
	dfs = func(b *ssa.BasicBlock) {
		if reach[b] {
			return
		}
		reach[b] = true
		for _, s := range b.Succs {
			dfs(s)
		}
	}
	if len(fn.Blocks) > 0 {
		dfs(fn.Blocks[0])
	}
	for _, b := range fn.Blocks {
		if !reach[b] {
			continue
		}
		for _, s := range b.Succs {
			if !li.back[[2]int{b.Index, s.Index}] {
				indeg[s]++
			}
		}
	}
	var ready []*ssa.BasicBlock
	if len(fn.Blocks) > 0 {
		ready = append(ready, fn.Blocks[0])
	}
	seen := map[*ssa.BasicBlock]bool{}
	for len(ready) > 0 {
		// pick smallest index for determinism
		sort.Slice(ready, func(i, j int) bool { return ready[i].Index < ready[j].Index })
		b := ready[0]
		ready = ready[1:]
		if seen[b] {
			continue
		}
		seen[b] = true
		li.order = append(li.order, b)
		for _, s := range b.Succs {
			if li.back[[2]int{b.Index, s.Index}] {
				continue
			}
			indeg[s]--
			if indeg[s] == 0 {
				ready = append(ready, s)
			}
		}
	}
	// ordinals by min position
	for _, lp := range li.list {
		lp.minPos = token.NoPos
		for b := range lp.blocks {
			for _, ins := range b.Instrs {
				if _, ok := ins.(*ssa.DebugRef); ok {
					continue
				}
				if p := ins.Pos(); p != token.NoPos && (lp.minPos == token.NoPos || p < lp.minPos) {
					lp.minPos = p
				}
			}
		}
	}
	for _, lp := range li.list {
		for _, other := range li.list {
			if other != lp && other.blocks[lp.header] {
				lp.depth++
			}
		}
	}
	sort.SliceStable(li.list, func(i, j int) bool {
		a, b := li.list[i], li.list[j]
		if a.minPos != b.minPos {
			return a.minPos < b.minPos
		}
		return a.depth < b.depth
	})
	for i, lp := range li.list {
		lp.ordinal = i
	}
	return li
}

// skolemize replaces universally quantified variables in positive positions
// of a goal (and existentially quantified ones in negative positions) by
// fresh constants (validity-preserving).
func (x *Exec) skolemize(t *Term) *Term { return x.skolem(t, true) }

func (x *Exec) skolem(t *Term, pos bool) *Term {
	ts := x.w.ts
	if !hasQuant(t, map[int]bool{}) {
		return t
	}
	switch {
	case t.kind == kQuant && !hasFreeBound(t, nil) && ((t.op == "forall") == pos):
		m := map[*Term]*Term{}
		for _, b := range t.bvars {
			m[b] = x.w.Fresh("sk_"+strings.SplitN(b.op, "!", 2)[0], b.sort)
		}
		return x.skolem(ts.Subst(t.args[0], m), pos)
	case t.kind == kApp && t.op == "not":
		return ts.Not(x.skolem(t.args[0], !pos))
	case t.kind == kApp && (t.op == "and" || t.op == "or"):
		out := make([]*Term, len(t.args))
		for i, a := range t.args {
			out[i] = x.skolem(a, pos)
		}
		if t.op == "and" {
			return ts.And(out...)
		}
		return ts.Or(out...)
	case t.kind == kApp && t.op == "=>":
		return ts.Implies(x.skolem(t.args[0], !pos), x.skolem(t.args[1], pos))
	case pos && t.kind == kApp && t.op == "=" && t.args[0].sort == SBool:
		// iff: both directions, universals in the conclusions skolemised
		a, b := t.args[0], t.args[1]
		return ts.And(ts.Implies(a, x.skolem(b, true)), ts.Implies(b, x.skolem(a, true)))
	case pos && t.kind == kApp && t.op == "ite" && t.sort == SBool:
		return ts.And(ts.Implies(t.args[0], x.skolem(t.args[1], true)), ts.Implies(ts.Not(t.args[0]), x.skolem(t.args[2], true)))
	}
	return t
}

// recordFacts remembers the conjuncts of an assumed fact, keyed by the guard
// they were assumed under (nil = unconditional).
func (x *Exec) recordFacts(t *Term) {
	if x.facts == nil {
		x.facts = map[int]map[int]bool{}
	}
	gid := -1
	body := t
	if t.kind == kApp && t.op == "=>" {
		gid = t.args[0].id
		body = t.args[1]
	}
	if x.facts[gid] == nil {
		x.facts[gid] = map[int]bool{}
	}
	var add func(c *Term)
	add = func(c *Term) {
		if c.kind == kApp && c.op == "and" {
			for _, a := range c.args {
				add(a)
			}
			return
		}
		x.facts[gid][c.id] = true
	}
	add(body)
}

// dropKnown removes goal conjuncts that are literally among the facts assumed
// unconditionally or under the same guard (e.g. an invariant passed on to a callee).
func (x *Exec) dropKnown(guard, cond *Term) *Term {
	if x.facts == nil {
		return cond
	}
	known := func(c *Term) bool {
		if x.facts[-1][c.id] {
			return true
		}
		if x.facts[guard.id][c.id] {
			return true
		}
		// guard is a conjunction: facts assumed under any subset-conjunction guard
		if guard.kind == kApp && guard.op == "and" {
			for _, g := range guard.args {
				if x.facts[g.id][c.id] {
					return true
				}
			}
		}
		return false
	}
	var conj []*Term
	var walk func(c *Term)
	walk = func(c *Term) {
		if c.kind == kApp && c.op == "and" {
			for _, a := range c.args {
				walk(a)
			}
			return
		}
		if !known(c) {
			conj = append(conj, c)
		}
	}
	walk(cond)
	return x.w.ts.And(conj...)
}

// enumeratePaths lists the acyclic entry-to-exit block paths of a loop-free function.
func enumeratePaths(fn *ssa.Function, limit int) [][]*ssa.BasicBlock {
	var out [][]*ssa.BasicBlock
	var cur []*ssa.BasicBlock
	var rec func(b *ssa.BasicBlock) bool
	rec = func(b *ssa.BasicBlock) bool {
		cur = append(cur, b)
		defer func() { cur = cur[:len(cur)-1] }()
		if len(b.Succs) == 0 {
			out = append(out, append([]*ssa.BasicBlock{}, cur...))
			return len(out) <= limit
		}
		seen := map[*ssa.BasicBlock]bool{}
		for _, s := range b.Succs {
			if seen[s] {
				continue
			}
			seen[s] = true
			if !rec(s) {
				return false
			}
		}
		return true
	}
	if len(fn.Blocks) == 0 || !rec(fn.Blocks[0]) {
		return nil
	}
	return out
}
