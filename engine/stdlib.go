package main

import (
	"strings"
	"fmt"

	"golang.org/x/tools/go/ssa"
)

// stdlib: native models of standard-library functions (trusted contracts).
// Every entry used is recorded as an assumption.
func (x *Exec) stdlib(fr *Frame, ins ssa.Instruction, fn *ssa.Function, args []Value, st *State) (Value, bool) {
	ts := x.w.ts
	name := fn.String()
	switch name {
	case "math.Float64bits":
		x.note("trusted: math.Float64bits is the IEEE-754 bit pattern")
		return x.f64bits(args[0].(*Term)), true
	case "math.Float64frombits":
		x.note("trusted: math.Float64frombits is the IEEE-754 value of the bit pattern")
		return x.f64frombits(args[0].(*Term)), true
	case "bytes.Compare":
		x.note("trusted: bytes.Compare(a, b) is -1/0/+1 as string(a) <, ==, > string(b)")
		sa := x.bytesToStr(st, args[0].(*Term))
		sb := x.bytesToStr(st, args[1].(*Term))
		lt := x.strLt(sa, sb)
		return ts.Ite(lt, ts.BV(^uint64(0), 64), ts.Ite(ts.Eq(sa, sb), ts.BV(0, 64), ts.BV(1, 64))), true
	case "encoding/binary.PutVarint", "encoding/binary.PutUvarint":
		// Trusted: writes n = len(encoding(x)) bytes, 1 <= n <= 10, at buf[0:n] (panics if buf is shorter),
		// and binary.Varint/Uvarint on a slice starting at the same place and at least n long returns (x, n).
		// The encoding itself is abstract: a ghost component remembers (array, offset) -> (kind, value, n);
		// it is assumed that the encoded bytes are not overwritten before they are decoded.
		kind := uint64(1)
		if fn.Name() == "PutUvarint" {
			kind = 2
		}
		x.note("trusted: binary.%s / binary.%s are mutually inverse on the bytes written (abstract encoding of 1..10 bytes; encoded bytes not overwritten before decoding)", fn.Name(), map[uint64]string{1: "Varint", 2: "Uvarint"}[kind])
		buf := args[0].(*Term)
		v := args[1].(*Term)
		n := x.w.Fun("varint_len"+fmt.Sprint(kind), SBV(64), v)
		x.assume(ts.And(x.w.bvule(ts.BV(1, 64), n), x.w.bvule(n, ts.BV(10, 64))))
		if kind == 1 {
			// values that fit 32 bits need at most 5 bytes (MaxVarintLen32)
			fits32 := ts.Eq(ts.App("(_ sign_extend 32)", SBV(64), ts.App("(_ extract 31 0)", SBV(32), v)), v)
			x.assume(ts.Implies(fits32, x.w.bvule(n, ts.BV(5, 64))))
		}
		x.safety(st, "index", ins, "binary."+fn.Name()+"(buf)", x.w.bvule(n, x.w.sLen(buf)))
		cn, cs := "E_"+sanitize(string(SBV(8))), SArr(SInt, SArr(SBV(64), SBV(8)))
		h := x.comp(st, cn, cs)
		row := ts.Select(h, x.w.sArr(buf))
		nr := x.w.Fresh("varintrow", SArr(SBV(64), SBV(8)))
		k := ts.Bound("k", SBV(64))
		lo := x.w.sOff(buf)
		hi := x.bvOp("bvadd", lo, n)
		x.assume(ts.Quant("forall", []*Term{k}, ts.Implies(ts.Or(x.w.bvult(k, lo), x.w.bvule(hi, k)), ts.Eq(ts.Select(nr, k), ts.Select(row, k)))))
		st.heap[cn] = ts.Store(h, x.w.sArr(buf), nr)
		gs := SArr(SInt, SArr(SBV(64), SBV(64)))
		for _, g := range []struct {
			name string
			val  *Term
		}{{"Vkind", ts.BV(kind, 64)}, {"Vval", v}, {"Vlen", n}} {
			gh := x.comp(st, g.name, gs)
			st.heap[g.name] = ts.Store(gh, x.w.sArr(buf), ts.Store(ts.Select(gh, x.w.sArr(buf)), lo, g.val))
		}
		return n, true
	case "encoding/binary.Varint", "encoding/binary.Uvarint":
		kind := uint64(1)
		if fn.Name() == "Uvarint" {
			kind = 2
		}
		buf := args[0].(*Term)
		gs := SArr(SInt, SArr(SBV(64), SBV(64)))
		at := func(name string) *Term {
			return ts.Select(ts.Select(x.comp(st, name, gs), x.w.sArr(buf)), x.w.sOff(buf))
		}
		known := ts.And(ts.Eq(at("Vkind"), ts.BV(kind, 64)), x.w.bvule(at("Vlen"), x.w.sLen(buf)))
		rv := x.w.Fresh("varint_v", SBV(64))
		rn := x.w.Fresh("varint_n", SBV(64))
		x.assume(ts.Implies(known, ts.And(ts.Eq(rv, at("Vval")), ts.Eq(rn, at("Vlen")))))
		// in every case: n <= len(buf), n >= -10 (n <= 0 reports an error)
		x.assume(ts.And(x.w.bvsle(rn, x.w.sLen(buf)), x.w.bvsle(ts.BV(^uint64(9), 64), rn), x.w.bvsle(rn, ts.BV(10, 64))))
		return Tuple{rv, rn}, true
	case "strconv.AppendInt", "strconv.AppendUint", "strconv.AppendFloat", "strconv.AppendBool",
		"strconv.AppendQuote", "strconv.AppendQuoteRune", "strconv.AppendQuoteToASCII", "strconv.AppendQuoteRuneToASCII",
		"unicode/utf8.AppendRune":
		// Trusted: behaves like append(dst, <some bytes>...): in place when there is room, else a fresh array.
		x.note("trusted: %s appends between 1 and 4096 bytes to dst like the append builtin (contents unspecified)", name)
		dst := args[0].(*Term)
		k := x.w.Fresh("appended", SBV(64))
		x.assume(ts.And(x.w.bvule(ts.BV(1, 64), k), x.w.bvule(k, ts.BV(4096, 64))))
		cn, cs := "E_"+sanitize(string(SBV(8))), SArr(SInt, SArr(SBV(64), SBV(8)))
		h := x.comp(st, cn, cs)
		oldLen, oldCap := x.w.sLen(dst), x.w.sCap(dst)
		newLen := x.bvOp("bvadd", oldLen, k)
		fits := x.w.bvule(newLen, oldCap)
		r := x.allocRef(st, "strconvappend")
		newCap := x.w.Fresh("appcap", SBV(64))
		x.assume(ts.And(x.w.bvule(newLen, newCap), x.w.bvult(newCap, x.w.existingLenBound())))
		arr := ts.Ite(fits, x.w.sArr(dst), r)
		off := x.w.sOff(dst)
		oldRow := ts.Select(h, x.w.sArr(dst))
		nr := x.w.Fresh("approw", SArr(SBV(64), SBV(8)))
		kk := ts.Bound("k", SBV(64))
		lo := x.bvOp("bvadd", off, oldLen)
		hi := x.bvOp("bvadd", off, newLen)
		x.assume(ts.Quant("forall", []*Term{kk}, ts.Implies(ts.Or(x.w.bvult(kk, lo), x.w.bvule(hi, kk)), ts.Eq(ts.Select(nr, kk), ts.Select(oldRow, kk)))))
		st.heap[cn] = ts.Store(h, arr, nr)
		return x.w.mkSlice(arr, off, newLen, ts.Ite(fits, oldCap, newCap)), true
	case "bytes.NewReader", "bytes.NewBuffer", "bytes.NewBufferString", "strings.NewReader", "encoding/gob.NewDecoder", "encoding/gob.NewEncoder":
		x.note("trusted: %s returns a non-nil value", name)
		r := x.allocRef(st, "ext_"+fn.Name())
		return r, true
	case "(*bytes.Reader).Len", "(*bytes.Buffer).Len", "(*strings.Reader).Len":
		r := x.w.Fresh("extlen", SBV(64))
		x.assume(ts.And(x.w.bvsle(ts.BV(0, 64), r), x.w.bvult(r, x.w.existingLenBound())))
		x.availLens = append(x.availLens, r)
		return r, true
	case "runtime.Stack":
		// writes a stack trace into buf and returns the number of bytes written
		buf := args[0].(*Term)
		cn, cs := "E_"+sanitize(string(SBV(8))), SArr(SInt, SArr(SBV(64), SBV(8)))
		h := x.comp(st, cn, cs)
		st.heap[cn] = ts.Store(h, x.w.sArr(buf), x.w.Fresh("stackrow", SArr(SBV(64), SBV(8))))
		x.note("trusted: runtime.Stack writes only into its buffer and returns 0 <= n <= len(buf)")
		n := x.w.Fresh("stackn", SBV(64))
		x.assume(ts.And(x.w.bvsle(ts.BV(0, 64), n), x.w.bvsle(n, x.w.sLen(buf))))
		return n, true
	case "io.ReadFull":
		// reads into buf (contents unspecified); err == nil implies n == len(buf)
		buf := args[1].(*Term)
		cn, cs := "E_"+sanitize(string(SBV(8))), SArr(SInt, SArr(SBV(64), SBV(8)))
		h := x.comp(st, cn, cs)
		st.heap[cn] = ts.Store(h, x.w.sArr(buf), x.w.Fresh("readrow", SArr(SBV(64), SBV(8))))
		x.note("trusted: io.ReadFull writes only into its buffer (whole backing row treated as overwritten) and returns n == len(buf) when err == nil")
		n := x.w.Fresh("readn", SBV(64))
		e := x.w.Fresh("readerr", SIface)
		x.assume(ts.And(x.w.bvsle(ts.BV(0, 64), n), x.w.bvsle(n, x.w.sLen(buf))))
		x.assume(ts.Implies(ts.Eq(e, x.w.ifaceNil()), ts.Eq(n, x.w.sLen(buf))))
		return Tuple{n, e}, true
	case "strings.Fields":
		// at most one field per byte of the input
		s := args[0].(*Term)
		r := x.havocResult(st, "fields", fn.Signature.Results()).(*Term)
		x.assume(x.w.bvule(x.w.sLen(r), x.w.strLen(s)))
		x.note("trusted: len(strings.Fields(s)) <= len(s)")
		return r, true
	case "(*strings.Builder).Grow":
		n := args[1].(*Term)
		x.safety(st, "pre", ins, "Builder.Grow(n)", x.w.bvsle(ts.BV(0, 64), n))
		x.allocSize(st, ins, n, 1)
		x.note("trusted: strings.Builder.Grow panics only for a negative count (and allocates n bytes)")
		return nil, true
	case "(*strings.Builder).WriteString", "(*strings.Builder).WriteByte", "(*strings.Builder).WriteRune", "(*strings.Builder).Write":
		x.note("trusted: strings.Builder write methods do not panic and return a nil error")
		return x.havocResult(st, "sbw", fn.Signature.Results()), true
	case "(*strings.Builder).String", "(*strings.Builder).Len":
		return x.havocResult(st, "sbs", fn.Signature.Results()), true
	case "sort.Slice", "sort.SliceStable":
		// less(i, j) is called an unknown number of times with in-range indexes:
		// its body is checked once for arbitrary i, j in a state in which
		// everything earlier calls may have written is arbitrary
		var lfn *ssa.Function
		var binds []Value
		switch l := args[1].(type) {
		case *Closure:
			lfn, binds = l.fn, l.bindings
		case *FuncRef:
			lfn = l.fn
		}
		sl, _ := args[0].(*Term)
		if lfn == nil || sl == nil || sl.kind != kApp || !strings.HasPrefix(sl.op, "box_") || len(sl.args) != 1 || sl.args[0].sort != SSlice {
			break
		}
		slice := sl.args[0]
		x.note("trusted: sort.Slice calls less only with 0 <= i, j < len(x); the order of the elements afterwards is unspecified in the model")
		havocMods := func() {
			for n, mi := range x.fnMods(lfn, map[*ssa.Function]bool{}) {
				x.compSort[n] = mi.sort
				st.heap[n] = x.w.Fresh(n, mi.sort)
				x.noteBase(st.heap[n], st.alloc)
			}
		}
		havocMods()
		i, j := x.w.Fresh("sort_i", SBV(64)), x.w.Fresh("sort_j", SBV(64))
		x.assume(ts.And(x.w.bvsle(ts.BV(0, 64), i), x.w.bvslt(i, x.w.sLen(slice)), x.w.bvsle(ts.BV(0, 64), j), x.w.bvslt(j, x.w.sLen(slice))))
		sub := st.clone()
		_, nst := x.callFunction(lfn, []Value{i, j}, binds, sub)
		if nst != nil {
			st.heap, st.alloc, st.epoch = nst.heap, nst.alloc, nst.epoch
			// (paths on which less panicked are obligations already; the guard is unchanged)
		}
		havocMods()
		return nil, true
	case "strings.Repeat", "bytes.Repeat":
		// documented to panic if count is negative or the result length overflows
		var ln *Term
		a := args[0].(*Term)
		if a.sort == SStr {
			ln = x.w.strLen(a)
		} else {
			ln = x.w.sLen(a)
		}
		cnt := args[1].(*Term)
		maxInt := ts.BV(uint64(1)<<63-1, 64)
		okc := ts.And(x.w.bvsle(ts.BV(0, 64), cnt),
			ts.Or(ts.Eq(ln, ts.BV(0, 64)), x.w.bvsle(cnt, x.bvOp("bvsdiv", maxInt, ln))))
		x.safety(st, "pre", ins, name+"(count, length)", okc)
		if x.allocChecked && x.allocLimit != 0 && x.specDepth == 0 {
			// the result must not be larger than the size limit
			lim := ts.BV(x.allocLimit, 64)
			x.safety(st, "alloc", ins, name+"(result length)", ts.Or(ts.Eq(ln, ts.BV(0, 64)), ts.Eq(cnt, ts.BV(0, 64)),
				ts.And(x.w.bvsle(cnt, lim), x.w.bvsle(ln, lim), x.w.bvsle(cnt, x.bvOp("bvsdiv", lim, ln)))))
		}
		x.note("trusted: %s panics only for a negative count or an overflowing result length", name)
		if a.sort == SStr {
			r := x.w.Fresh("repeated", SStr)
			x.assume(ts.Eq(x.w.strLen(r), x.bvOp("bvmul", ln, cnt)))
			return r, true
		}
		return x.havocResult(st, "repeated", fn.Signature.Results()), true
	case "fmt.Errorf", "errors.New":
		x.note("trusted: %s returns a non-nil error", name)
		r := x.w.Fresh("err_"+fn.Name(), SIface)
		x.assume(ts.Not(ts.Eq(r, x.w.ifaceNil())))
		x.assume(ts.App("(_ is box_other)", SBool, r))
		return r, true
	case "sort.Search":
		// r := sort.Search(n, f): f is called only with 0 <= i < n; on return
		// 0 <= r <= n, (r < n ==> f(r)) and (r > 0 ==> !f(r-1)). (The stronger
		// "smallest index" reading needs f monotone and is left to the caller's contract.)
		x.note("trusted: sort.Search(n, f) calls f only inside [0,n) and returns r in [0,n] with f(r) (if r<n) and !f(r-1) (if r>0)")
		n := args[0].(*Term)
		apply := func(i *Term, sub *State) *Term {
			var res []Value
			var nst *State
			switch f := args[1].(type) {
			case *Closure:
				res, nst = x.callFunction(f.fn, []Value{i}, f.bindings, sub)
			case *FuncRef:
				res, nst = x.callFunction(f.fn, []Value{i}, nil, sub)
			default:
				unsup("sort.Search with a dynamic function value")
			}
			if nst == nil {
				unsup("sort.Search predicate does not return")
			}
			return res[0].(*Term)
		}
		// safety of the predicate for an arbitrary index in range
		ai := x.w.Fresh("search_i", SBV(64))
		sub := st.clone()
		sub.guard = ts.And(st.guard, x.w.bvsle(ts.BV(0, 64), ai), x.w.bvslt(ai, n))
		apply(ai, sub)
		r := x.w.Fresh("search_r", SBV(64))
		x.assumeIn(st, ts.And(x.w.bvsle(ts.BV(0, 64), r), x.w.bvsle(r, n)))
		x.specDepth++
		s1 := st.clone()
		fr1 := apply(r, s1)
		s2 := st.clone()
		fr2 := apply(x.bvOp("bvsub", r, ts.BV(1, 64)), s2)
		x.specDepth--
		x.assumeIn(st, ts.Implies(x.w.bvslt(r, n), fr1))
		x.assumeIn(st, ts.Implies(x.w.bvslt(ts.BV(0, 64), r), ts.Not(fr2)))
		return r, true
	case "math.IsNaN":
		return ts.App("fp.isNaN", SBool, args[0].(*Term)), true
	case "math.IsInf":
		f := args[0].(*Term)
		sign := args[1].(*Term)
		inf := ts.App("fp.isInfinite", SBool, f)
		pos := ts.App("fp.isPositive", SBool, f)
		sgt := x.w.bvslt(ts.BV(0, 64), sign)
		slt := x.w.bvslt(sign, ts.BV(0, 64))
		return ts.And(inf, ts.Or(ts.And(sgt, pos), ts.And(slt, ts.Not(pos)), ts.And(ts.Not(sgt), ts.Not(slt)))), true
	}
	return nil, false
}

func (x *Exec) stdlibMods(fn *ssa.Function, c *ssa.CallCommon) modset {
	return nil
}

func (x *Exec) bytesToStr(st *State, v *Term) *Term {
	ts := x.w.ts
	n, s := "E_"+sanitize(string(SBV(8))), SArr(SInt, SArr(SBV(64), SBV(8)))
	row := ts.Select(x.comp(st, n, s), x.w.sArr(v))
	r := x.w.Fun("str_of_bytes", SStr, row, x.w.sOff(v), x.w.sLen(v))
	x.assume(ts.Eq(x.w.strLen(r), x.w.sLen(v)))
	return r
}

// strLt: the lexicographic order on strings, an uninterpreted strict total order.
func (x *Exec) strLt(a, b *Term) *Term {
	x.w.needStrOrder = true
	return x.w.Fun("str_lt", SBool, a, b)
}
