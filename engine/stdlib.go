package main

import (
	"golang.org/x/tools/go/ssa"
)

// stdlib: native models of standard-library functions (trusted contracts).
// Every entry used is recorded as an assumption.
func (x *Exec) stdlib(fr *Frame, ins ssa.Instruction, fn *ssa.Function, args []Value, st *State) (Value, bool) {
	ts := x.w.ts
	name := fn.String()
	switch name {
	case "math.Float64bits":
		x.note("trusted: math.Float64bits is the IEEE-754 bit pattern")
		return x.f64bits(args[0].(*Term)), true
	case "math.Float64frombits":
		x.note("trusted: math.Float64frombits is the IEEE-754 value of the bit pattern")
		return x.f64frombits(args[0].(*Term)), true
	case "bytes.Compare":
		x.note("trusted: bytes.Compare(a, b) is -1/0/+1 as string(a) <, ==, > string(b)")
		sa := x.bytesToStr(st, args[0].(*Term))
		sb := x.bytesToStr(st, args[1].(*Term))
		lt := x.strLt(sa, sb)
		return ts.Ite(lt, ts.BV(^uint64(0), 64), ts.Ite(ts.Eq(sa, sb), ts.BV(0, 64), ts.BV(1, 64))), true
	case "fmt.Errorf", "errors.New":
		x.note("trusted: %s returns a non-nil error", name)
		r := x.w.Fresh("err_"+fn.Name(), SIface)
		x.assume(ts.Not(ts.Eq(r, x.w.ifaceNil())))
		x.assume(ts.App("(_ is box_other)", SBool, r))
		return r, true
	case "sort.Search":
		// r := sort.Search(n, f): f is called only with 0 <= i < n; on return
		// 0 <= r <= n, (r < n ==> f(r)) and (r > 0 ==> !f(r-1)). (The stronger
		// "smallest index" reading needs f monotone and is left to the caller's contract.)
		x.note("trusted: sort.Search(n, f) calls f only inside [0,n) and returns r in [0,n] with f(r) (if r<n) and !f(r-1) (if r>0)")
		n := args[0].(*Term)
		apply := func(i *Term, sub *State) *Term {
			var res []Value
			var nst *State
			switch f := args[1].(type) {
			case *Closure:
				res, nst = x.callFunction(f.fn, []Value{i}, f.bindings, sub)
			case *FuncRef:
				res, nst = x.callFunction(f.fn, []Value{i}, nil, sub)
			default:
				unsup("sort.Search with a dynamic function value")
			}
			if nst == nil {
				unsup("sort.Search predicate does not return")
			}
			return res[0].(*Term)
		}
		// safety of the predicate for an arbitrary index in range
		ai := x.w.Fresh("search_i", SBV(64))
		sub := st.clone()
		sub.guard = ts.And(st.guard, x.w.bvsle(ts.BV(0, 64), ai), x.w.bvslt(ai, n))
		apply(ai, sub)
		r := x.w.Fresh("search_r", SBV(64))
		x.assumeIn(st, ts.And(x.w.bvsle(ts.BV(0, 64), r), x.w.bvsle(r, n)))
		x.specDepth++
		s1 := st.clone()
		fr1 := apply(r, s1)
		s2 := st.clone()
		fr2 := apply(x.bvOp("bvsub", r, ts.BV(1, 64)), s2)
		x.specDepth--
		x.assumeIn(st, ts.Implies(x.w.bvslt(r, n), fr1))
		x.assumeIn(st, ts.Implies(x.w.bvslt(ts.BV(0, 64), r), ts.Not(fr2)))
		return r, true
	case "math.IsNaN":
		return ts.App("fp.isNaN", SBool, args[0].(*Term)), true
	case "math.IsInf":
		f := args[0].(*Term)
		sign := args[1].(*Term)
		inf := ts.App("fp.isInfinite", SBool, f)
		pos := ts.App("fp.isPositive", SBool, f)
		sgt := x.w.bvslt(ts.BV(0, 64), sign)
		slt := x.w.bvslt(sign, ts.BV(0, 64))
		return ts.And(inf, ts.Or(ts.And(sgt, pos), ts.And(slt, ts.Not(pos)), ts.And(ts.Not(sgt), ts.Not(slt)))), true
	}
	return nil, false
}

func (x *Exec) stdlibMods(fn *ssa.Function, c *ssa.CallCommon) modset {
	return nil
}

func (x *Exec) bytesToStr(st *State, v *Term) *Term {
	ts := x.w.ts
	n, s := "E_"+sanitize(string(SBV(8))), SArr(SInt, SArr(SBV(64), SBV(8)))
	row := ts.Select(x.comp(st, n, s), x.w.sArr(v))
	r := x.w.Fun("str_of_bytes", SStr, row, x.w.sOff(v), x.w.sLen(v))
	x.assume(ts.Eq(x.w.strLen(r), x.w.sLen(v)))
	return r
}

// strLt: the lexicographic order on strings, an uninterpreted strict total order.
func (x *Exec) strLt(a, b *Term) *Term {
	x.w.needStrOrder = true
	return x.w.Fun("str_lt", SBool, a, b)
}
