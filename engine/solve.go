package main

import (
	"bufio"
	"bytes"
	"context"
	"fmt"
	"go/types"
	"os"
	"os/exec"
	"path/filepath"
	"strings"
	"sync"
	"time"
)

// smtText renders one obligation as a complete SMT-LIB script. extra are
// additional (get-value) terms.
func (x *Exec) smtText(o *Obligation, getValues []*Term) string {
	return x.smtTextMode(o, getValues, false)
}

// needsInst: the query has quantifiers (so the instantiated variant is worth trying first).
func (x *Exec) needsInst(o *Obligation) bool {
	seen := map[int]bool{}
	for _, a := range x.assumes[:o.nAssume] {
		if hasQuant(a, seen) {
			return true
		}
	}
	return hasQuant(o.goal, seen)
}

func (x *Exec) smtTextMode(o *Obligation, getValues []*Term, instantiate bool) string {
	return x.smtTextOpt(o, getValues, instantiate, false)
}

// smtTextOpt: dropQuant leaves out every quantified assumption (a weaker
// query: `unsat` for it is still a proof).
func (x *Exec) smtTextOpt(o *Obligation, getValues []*Term, instantiate, dropQuant bool) string {
	w := x.w
	ts := w.ts
	var roots []*Term
	roots = append(roots, w.axioms...)
	if o.guard != nil {
		// an assumption made under a path condition that contradicts the
		// obligation's own path condition is vacuous for it: leave it out
		lits := map[int]bool{}
		neg := map[int]bool{}
		for _, l := range flattenAnd(o.guard) {
			lits[l.id] = true
			if l.kind == kApp && l.op == "not" {
				neg[l.args[0].id] = true
			}
		}
		for _, a := range x.assumes[:o.nAssume] {
			if a.kind == kApp && a.op == "=>" && contradicts(a.args[0], lits, neg) {
				continue
			}
			roots = append(roots, a)
		}
	} else {
		roots = append(roots, x.assumes[:o.nAssume]...)
	}
	var goal *Term
	if o.IsCover {
		goal = o.goal
	} else {
		goal = ts.Not(o.goal)
	}
	if dropQuant {
		var keep []*Term
		for _, r := range roots {
			if !hasQuant(r, map[int]bool{}) {
				keep = append(keep, r)
			}
		}
		roots = keep
	}
	roots = append(roots, goal)
	if !dropQuant {
		roots = append(roots, x.baseAxioms(roots)...)
	}
	if instantiate {
		ic := &instCtx{ts: ts, cands: collectIndexTerms(roots, goal), ground: map[int][]*Term{}, gseen: map[int]bool{}}
		for _, r := range roots {
			ic.indexGround(r)
		}
		// first round only enriches the ground-term index with the instances' terms
		pc0 := &proxyCtx{ic: ic, w: w, proxies: map[int]*Term{}, memo: map[int]*Term{}}
		for _, r := range roots {
			pc0.proxify(r)
		}
		pc := &proxyCtx{ic: ic, w: w, proxies: map[int]*Term{}, memo: map[int]*Term{}}
		for i, r := range roots {
			roots[i] = pc.proxify(r)
		}
		roots = append(roots, pc.axioms...)
	}
	roots = append(roots, getValues...)

	var sb strings.Builder
	sb.WriteString("(set-option :produce-models true)\n(set-logic ALL)\n")
	w.printDatatypes(&sb)
	leaves := collectLeaves(roots)
	ops := collectOps(roots)
	// uninterpreted functions
	for _, name := range sortedKeys(w.funs) {
		if !ops[name] {
			continue
		}
		fd := w.funs[name]
		if iface, ok := w.implUsed[name]; ok {
			sb.WriteString(w.implDefinition(name, iface))
			continue
		}
		var as []string
		for _, a := range fd.args {
			as = append(as, string(a))
		}
		fmt.Fprintf(&sb, "(declare-fun %s (%s) %s)\n", name, strings.Join(as, " "), fd.ret)
	}
	for _, name := range sortedKeys(leaves) {
		if s, ok := w.consts[name]; ok {
			fmt.Fprintf(&sb, "(declare-const %s %s)\n", name, s)
		}
	}
	if ops["str_lt"] {
		sb.WriteString("(assert (forall ((a Str) (b Str)) (not (and (str_lt a b) (str_lt b a)))))\n")
		sb.WriteString("(assert (forall ((a Str) (b Str)) (or (str_lt a b) (= a b) (str_lt b a))))\n")
	}
	strs := PrintTerms(&sb, roots)
	n := len(roots) - len(getValues)
	for i := 0; i < n; i++ {
		fmt.Fprintf(&sb, "(assert %s)\n", strs[i])
	}
	sb.WriteString("(check-sat)\n")
	if len(getValues) > 0 {
		for i := n; i < len(roots); i++ {
			fmt.Fprintf(&sb, "(get-value (%s))\n", strs[i])
		}
	}
	return sb.String()
}

func (w *World) implDefinition(name string, iface *types.Interface) string {
	var alts []string
	for _, k := range w.boxOrder {
		b := w.boxes[k]
		if types.Implements(b.typ, iface) {
			alts = append(alts, fmt.Sprintf("((_ is %s) x)", b.ctor))
		}
	}
	other := fmt.Sprintf("(and ((_ is box_other) x) (%s_other (other_tid x)))", name)
	alts = append(alts, other)
	return fmt.Sprintf("(declare-fun %s_other (Int) Bool)\n(define-fun %s ((x Iface)) Bool (or %s))\n", name, name, strings.Join(alts, " "))
}

// ---------------------------------------------------------------------------
// Solver portfolio

type solverSpec struct {
	name string
	argv func(file string, timeoutS int) []string
}

var solvers = []solverSpec{
	{"z3-new", func(f string, t int) []string { return []string{"z3-new", "-smt2", fmt.Sprintf("-T:%d", t), f} }},
	{"cvc5", func(f string, t int) []string {
		return []string{"cvc5", "--produce-models", fmt.Sprintf("--tlimit=%d", t*1000), f}
	}},
	{"z3", func(f string, t int) []string { return []string{"z3", "-smt2", fmt.Sprintf("-T:%d", t), f} }},
}

type SolveResult struct {
	Status  string // unsat | sat | unknown
	Solver  string
	Seconds float64
	Output  string
	Answers map[string]string // per solver
}

func runOne(ctx context.Context, sp solverSpec, file string, timeoutS int) (string, string, float64) {
	argv := sp.argv(file, timeoutS)
	start := time.Now()
	cmd := exec.CommandContext(ctx, argv[0], argv[1:]...)
	var out bytes.Buffer
	cmd.Stdout = &out
	cmd.Stderr = &out
	cmd.Run()
	el := time.Since(start).Seconds()
	sc := bufio.NewScanner(bytes.NewReader(out.Bytes()))
	first := ""
	for sc.Scan() {
		l := strings.TrimSpace(sc.Text())
		if l == "" {
			continue
		}
		first = l
		break
	}
	switch first {
	case "sat", "unsat":
		return first, out.String(), el
	}
	return "unknown", out.String(), el
}

// solveFile races the solvers; first definite answer wins. If agree is set,
// waits for a second definite answer and reports disagreement.
func solveFile(file string, timeoutS int, which []string) SolveResult {
	ctx, cancel := context.WithCancel(context.Background())
	defer cancel()
	type ans struct {
		name, status, out string
		sec               float64
	}
	ch := make(chan ans, len(solvers))
	n := 0
	for _, sp := range solvers {
		if len(which) > 0 && !contains(which, sp.name) {
			continue
		}
		n++
		go func(sp solverSpec) {
			st, out, sec := runOne(ctx, sp, file, timeoutS)
			ch <- ans{sp.name, st, out, sec}
		}(sp)
	}
	res := SolveResult{Status: "unknown", Answers: map[string]string{}}
	var outs []string
	for i := 0; i < n; i++ {
		a := <-ch
		res.Answers[a.name] = a.status
		if a.status == "sat" || a.status == "unsat" {
			res.Status, res.Solver, res.Seconds, res.Output = a.status, a.name, a.sec, a.out
			cancel()
			return res
		}
		outs = append(outs, a.name+": "+firstLines(a.out, 3))
		if a.sec > res.Seconds {
			res.Seconds = a.sec
		}
	}
	res.Output = strings.Join(outs, "\n")
	return res
}

func firstLines(s string, n int) string {
	ls := strings.Split(strings.TrimSpace(s), "\n")
	if len(ls) > n {
		ls = ls[:n]
	}
	return strings.Join(ls, " | ")
}

func contains(xs []string, s string) bool {
	for _, x := range xs {
		if x == s {
			return true
		}
	}
	return false
}

type Discharged struct {
	Obl     *Obligation
	Res     SolveResult
	File    string
	Size    int
	Model   map[string]string
	InstSat string // solver that found a model of the ground-instantiated variant
}

// dischargeAll solves every obligation of a result in parallel.
var skipObligation func(name string) bool

// shortObligation: obligations of open known findings are only re-confirmed briefly
var shortObligation func(name string) bool

func dischargeAll(results []*Result, outDir string, timeoutS int, workers int) map[*Obligation]*Discharged {
	os.MkdirAll(outDir, 0o755)
	type job struct {
		r   *Result
		o   *Obligation
		idx int
	}
	var jobs []job
	for _, r := range results {
		for _, o := range r.Obls {
			jobs = append(jobs, job{r, o, len(jobs)})
		}
	}
	out := map[*Obligation]*Discharged{}
	var mu sync.Mutex
	var wg sync.WaitGroup
	ch := make(chan job)
	// SMT text generation is not thread safe per Exec (term store shared): serialise per Exec
	locks := map[*Exec]*sync.Mutex{}
	for _, r := range results {
		locks[r.Exec] = &sync.Mutex{}
	}
	for i := 0; i < workers; i++ {
		wg.Add(1)
		go func() {
			defer wg.Done()
			for j := range ch {
				lk := locks[j.r.Exec]
				lk.Lock()
				text := j.r.Exec.smtText(j.o, nil)
				itext, qtext := "", ""
				if !j.o.IsCover && j.r.Exec.needsInst(j.o) {
					itext = j.r.Exec.smtTextMode(j.o, nil, true)
					qtext = j.r.Exec.smtTextOpt(j.o, nil, false, true)
				}
				lk.Unlock()
				file := filepath.Join(outDir, fmt.Sprintf("%04d_%s.smt2", j.idx, sanitize(j.o.Name)))
				os.WriteFile(file, []byte(text), 0o644)
				var res SolveResult
				if skipObligation != nil && skipObligation(j.o.Name) {
					mu.Lock()
					out[j.o] = &Discharged{Obl: j.o, Res: SolveResult{Status: "skipped"}, File: file, Size: len(text)}
					mu.Unlock()
					continue
				}
				tmo := timeoutS
				if shortObligation != nil && shortObligation(j.o.Name) && tmo > 6 {
					tmo = 6
				}
				if j.o.IsCover && tmo > 4 {
					// vacuity guards: only `unsat` (contradictory assumptions) matters
					tmo = 4
				}
				if qtext != "" {
					// first the query without any quantified assumption (cheap when it suffices)
					qfile := strings.TrimSuffix(file, ".smt2") + ".noq.smt2"
					os.WriteFile(qfile, []byte(qtext), 0o644)
					qt := 5
					if tmo < qt {
						qt = tmo
					}
					res = solveFile(qfile, qt, nil)
					os.Remove(qfile)
					if res.Status == "unsat" {
						res.Solver += "+noq"
					} else {
						res = SolveResult{}
					}
				}
				if res.Status != "unsat" && itext != "" {
					ifile := strings.TrimSuffix(file, ".smt2") + ".inst.smt2"
					os.WriteFile(ifile, []byte(itext), 0o644)
					res = solveFile(ifile, tmo, nil)
					if res.Status == "unsat" {
						res.Solver += "+inst"
					}
				}
				instSat := ""
				if res.Status == "sat" {
					instSat = res.Solver
				}
				if res.Status != "unsat" {
					t := tmo
					if res.Status == "sat" && t > 30 {
						// the ground-instantiated query has a model: the full query is rarely unsat
						t = 30
					}
					res = solveFile(file, t, nil)
				}
				if os.Getenv("GOVC_VERBOSE") != "" {
					fmt.Fprintf(os.Stderr, "%-8s %-7s %6.1fs %s\n", res.Status, res.Solver, res.Seconds, j.o.Name)
				}
				if res.Status == "unsat" && os.Getenv("GOVC_KEEP_SMT") == "" {
					// discharged: the query text is not needed any more (disk space)
					os.Remove(file)
					os.Remove(strings.TrimSuffix(file, ".smt2") + ".inst.smt2")
				}
				d := &Discharged{Obl: j.o, Res: res, File: file, Size: len(text), InstSat: instSat}
				mu.Lock()
				out[j.o] = d
				mu.Unlock()
			}
		}()
	}
	for _, j := range jobs {
		ch <- j
	}
	close(ch)
	wg.Wait()
	return out
}

// baseAxioms: memory-model axioms for the base heap components that occur in
// the query: every reference stored in a base (initial or havoced) component
// was allocated before that component came into being.
func (x *Exec) baseAxioms(roots []*Term) []*Term {
	ts := x.w.ts
	var out []*Term
	leaves := collectLeaves(roots)
	names := sortedKeys(leaves)
	for _, n := range names {
		srt := leaves[n]
		t := ts.Leaf(n, srt)
		al, ok := x.baseAlloc[t.id]
		if !ok {
			continue
		}
		// peel array levels
		var bvars []*Term
		cur := t
		cs := srt
		depth := 0
		for {
			is, es, isArr := cs.arrParts()
			if !isArr || depth >= 2 {
				break
			}
			b := ts.BoundAt(fmt.Sprintf("ax%d", depth), is, 200+depth)
			bvars = append(bvars, b)
			cur = ts.Select(cur, b)
			cs = es
			depth++
		}
		var fact *Term
		switch cs {
		case SInt:
			fact = ts.And(x.w.intLe(ts.IntLit(0), cur), x.w.intLe(cur, al))
		case SSlice:
			fact = ts.And(x.w.intLe(ts.IntLit(0), x.w.sArr(cur)), x.w.intLe(x.w.sArr(cur), al))
		default:
			continue
		}
		if len(bvars) == 0 {
			out = append(out, fact)
		} else {
			out = append(out, ts.Quant("forall", bvars, fact))
		}
	}
	return out
}

func flattenAnd(t *Term) []*Term {
	if t.kind == kApp && t.op == "and" {
		var out []*Term
		for _, a := range t.args {
			out = append(out, flattenAnd(a)...)
		}
		return out
	}
	return []*Term{t}
}

// contradicts: some conjunct of guard a is the negation of a conjunct of the
// obligation's guard (lits: its conjuncts; neg: the atoms it negates).
func contradicts(a *Term, lits, neg map[int]bool) bool {
	for _, l := range flattenAnd(a) {
		if neg[l.id] {
			return true
		}
		if l.kind == kApp && l.op == "not" && lits[l.args[0].id] {
			return true
		}
	}
	return false
}
