package main

import (
	"fmt"
	"go/constant"
	"go/types"
	"sort"
	"strings"

	"golang.org/x/tools/go/ssa"
)

const modPath = "github.com/ozanh/ugo"
const rtPath = modPath + "/internal/verifrt"

func inModule(fn *ssa.Function) bool {
	if fn.Pkg == nil {
		if o := fn.Origin(); o != nil && o.Pkg != nil {
			return strings.HasPrefix(o.Pkg.Pkg.Path(), modPath)
		}
		// synthetic wrappers / method thunks: decide by receiver or object package
		if obj := fn.Object(); obj != nil && obj.Pkg() != nil {
			return strings.HasPrefix(obj.Pkg().Path(), modPath)
		}
		return fn.Synthetic != ""
	}
	return strings.HasPrefix(fn.Pkg.Pkg.Path(), modPath)
}

func fnPkgPath(fn *ssa.Function) string {
	if fn.Pkg != nil {
		return fn.Pkg.Pkg.Path()
	}
	if o := fn.Origin(); o != nil && o.Pkg != nil {
		return o.Pkg.Pkg.Path()
	}
	if obj := fn.Object(); obj != nil && obj.Pkg() != nil {
		return obj.Pkg().Path()
	}
	return ""
}

func (x *Exec) argVals(fr *Frame, c *ssa.CallCommon) []Value {
	out := make([]Value, len(c.Args))
	for i, a := range c.Args {
		out[i] = x.get(fr, a)
	}
	return out
}

func (x *Exec) call(fr *Frame, ins ssa.Instruction, c *ssa.CallCommon, st *State) Value {
	if isNoopCall(c) {
		return nil
	}
	if c.IsInvoke() {
		return x.invoke(fr, ins, c, st)
	}
	switch callee := c.Value.(type) {
	case *ssa.Builtin:
		return x.builtin(fr, ins, callee, c, st)
	case *ssa.Function:
		return x.staticCall(fr, ins, callee, nil, x.argVals(fr, c), c, st)
	case *ssa.MakeClosure:
		cl := x.get(fr, callee).(*Closure)
		return x.staticCall(fr, ins, cl.fn, cl.bindings, x.argVals(fr, c), c, st)
	}
	// dynamic function value
	fv := x.get(fr, c.Value)
	switch f := fv.(type) {
	case *FuncRef:
		return x.staticCall(fr, ins, f.fn, nil, x.argVals(fr, c), c, st)
	case *Closure:
		return x.staticCall(fr, ins, f.fn, f.bindings, x.argVals(fr, c), c, st)
	case *HavocCall:
		return x.havocCall(fr, f, x.argVals(fr, c), c, st)
	case *Term:
		if x.specDepth == 0 {
			x.safety(st, "nil", ins, describe(c.Value), x.w.ts.Not(x.w.ts.Eq(f, x.w.ts.IntLit(0))))
		}
		x.note("call through function value %s: result arbitrary, no modelled state changed, no panic (assumed)", describe(c.Value))
		return x.havocResult(st, "dyncall", c.Signature().Results())
	}
	unsup("call of %T", fv)
	return nil
}

func (x *Exec) havocResult(st *State, name string, res *types.Tuple) Value {
	switch res.Len() {
	case 0:
		return nil
	case 1:
		v := x.symbolicValue(st, name, res.At(0).Type())
		if t, ok := v.(*Term); ok {
			x.assume(x.w.objectFacts(t, res.At(0).Type(), st.alloc))
		}
		return v
	}
	v := x.symbolicValue(st, name, res)
	if tup, ok := v.(Tuple); ok {
		for i := 0; i < res.Len() && i < len(tup); i++ {
			if t, ok := tup[i].(*Term); ok {
				x.assume(x.w.objectFacts(t, res.At(i).Type(), st.alloc))
			}
		}
	}
	return v
}

func packResults(res []Value, n int) Value {
	switch n {
	case 0:
		return nil
	case 1:
		return res[0]
	}
	return Tuple(res)
}

func (x *Exec) invoke(fr *Frame, ins ssa.Instruction, c *ssa.CallCommon, st *State) Value {
	ts := x.w.ts
	recv := x.term(fr, c.Value)
	if x.specDepth == 0 {
		x.safety(st, "nil", ins, describe(c.Value)+"."+c.Method.Name(), ts.Not(ts.Eq(recv, x.w.ifaceNil())))
	}
	// interface-level contract?
	if ic := x.eng.ifaceContract(c.Method); ic != nil && x.useMode == 0 {
		args := append([]Value{recv}, x.argVals(fr, c)...)
		return x.useContract(fr, ins, ic, args, st)
	}
	if countLeaves(recv, 0) <= 16 && !(x.target != nil && contains(x.target.Opaque, c.Method.Name()) && x.specDepth == 0) {
		if v, ok := x.dispatch(fr, ins, c, recv, x.argVals(fr, c), st); ok {
			return v
		}
	}
	if x.panicFn != nil && x.useMode == 0 && x.specDepth == 0 {
		x.panicPoint(st, ins.Pos(), "dyncall:"+c.Method.Name(), nil)
	}
	x.note("dynamic call %s.%s: result arbitrary, no modelled state changed, no panic (assumed)", shortTypeString(c.Value.Type()), c.Method.Name())
	if x.target != nil && contains(x.target.GhostResults, c.Method.Name()) && x.specDepth == 0 && len(c.Args) == 0 && c.Signature().Results().Len() == 1 {
		// named result: the k-th opaque call of this method in the run
		if x.dynCount == nil {
			x.dynCount = map[string]int{}
		}
		k := x.dynCount[c.Method.Name()]
		x.dynCount[c.Method.Name()] = k + 1
		rt := c.Signature().Results().At(0).Type()
		r := x.w.Fun("ghostdyn_"+c.Method.Name(), x.w.sortOf(rt), recv, ts.IntLit(int64(k)))
		x.assume(x.w.validFacts(r, rt, st.alloc, 0))
		x.assume(x.w.objectFacts(r, rt, st.alloc))
		return r
	}
	return x.havocResult(st, "invoke_"+c.Method.Name(), c.Signature().Results())
}

func (x *Exec) staticCall(fr *Frame, ins ssa.Instruction, fn *ssa.Function, bindings []Value, args []Value, c *ssa.CallCommon, st *State) Value {
	// intrinsics
	if p := fnPkgPath(fn); p == rtPath {
		return x.intrinsic(fr, ins, fn, args, st)
	}
	nres := fn.Signature.Results().Len()
	// contract?
	if x.target != nil && x.target.Extra && x.target.fn == fn && x.curIsHarness() && x.useMode == 0 {
		// the call under verification of an additional (verification-only) contract
		saved := x.specDepth
		x.specDepth = 0
		pre := st.clone()
		if x.target.Panics != "" {
			x.setupPanicMode(x.target, fn, args)
			x.establishPanicPred(st, ins.Pos(), "entry")
		}
		res, nst := x.callFunction(fn, args, bindings, st)
		x.panicFn = nil
		x.specDepth = saved
		if nst == nil {
			st.guard = x.w.ts.False()
			return x.havocResult(st, "noreturn", fn.Signature.Results())
		}
		st.heap, st.alloc, st.guard, st.epoch = nst.heap, nst.alloc, nst.guard, nst.epoch
		_ = pre
		return packResults(res, nres)
	}
	if x.panicFn != nil && x.useMode == 0 && x.specDepth == 0 {
		if pc := x.eng.byFnPanic[fn]; pc != nil && pc != x.target && sameText(pc.Panics, x.target.Panics) {
			// the callee may panic only in states satisfying the same predicate (its own panic-mode contract)
			return x.useContract(fr, ins, pc, args, st)
		}
		if ct := x.eng.contractFor(fn); ct != nil && ct != x.target && contains(x.target.Uses, ct.Name) {
			// a function verified never to panic under its precondition (obligation at this call)
			return x.useContract(fr, ins, ct, args, st)
		}
	} else if ct := x.eng.contractFor(fn); ct != nil && !(x.specDepth > 0 && len(ct.Ensures) == 0 && x.target != ct) && !(x.target != nil && x.target != ct && contains(x.target.Inline, ct.Name)) {
		// (a safety-only contract says nothing about results: specification code
		// that calls such a function sees its body instead)
		if !(x.target == ct && x.curIsHarness() && x.useMode == 0) {
			return x.useContract(fr, ins, ct, args, st)
		}
		// the call under verification: the real body, with safety obligations on
		saved := x.specDepth
		x.specDepth = 0
		// vacuity guard: the preconditions (and everything assumed so far) must be satisfiable
		x.obls = append(x.obls, &Obligation{Name: shortFn(x.targetName()) + "/cover:pre" + x.caseTag, Kind: "cover", Pos: x.position(ins.Pos()),
			Fn: x.targetName(), nAssume: len(x.assumes), goal: st.guard, IsCover: true})
		pre := st.clone()
		if ct.Panics != "" {
			x.setupPanicMode(ct, fn, args)
			x.establishPanicPred(st, ins.Pos(), "entry")
		}
		res, nst := x.callFunction(fn, args, bindings, st)
		x.panicFn = nil
		x.specDepth = saved
		if nst == nil {
			st.guard = x.w.ts.False()
			return x.havocResult(st, "noreturn", fn.Signature.Results())
		}
		st.heap, st.alloc, st.guard, st.epoch = nst.heap, nst.alloc, nst.guard, nst.epoch
		x.frameCheck(pre, st, ins)
		return packResults(res, nres)
	}
	if inModule(fn) && fn.Blocks != nil {
		if len(x.stack) < x.inlineMax+x.specDepth*8 && !x.onStack(fn) {
			res, nst := x.callFunction(fn, args, bindings, st)
			if nst == nil {
				// callee never returns on this path
				st.guard = x.w.ts.False()
				return x.havocResult(st, "noreturn", fn.Signature.Results())
			}
			// continue in caller's state object
			st.heap, st.alloc = nst.heap, nst.alloc
			// paths on which the callee panicked are gone: nst.guard implies st.guard
			st.guard = nst.guard
			return packResults(res, nres)
		}
		// cannot inline: havoc everything the callee may touch
		x.note("call to %s not inlined (depth/recursion): every heap component it may write (transitive mod-set; dynamic calls inside assumed not to write modelled state) havoced, result arbitrary, panics inside not checked", shortFn(fn.String()))
		if x.panicFn != nil && x.useMode == 0 && x.specDepth == 0 {
			x.panicPoint(st, ins.Pos(), "call:"+fn.Name(), nil)
		}
		for n, mi := range x.fnMods(fn, map[*ssa.Function]bool{}) {
			x.compSort[n] = mi.sort
			st.heap[n] = x.w.Fresh(n, mi.sort)
			x.noteBase(st.heap[n], st.alloc)
		}
		x.bumpAlloc(st)
		return x.havocResult(st, "call_"+fn.Name(), fn.Signature.Results())
	}
	// external
	if v, ok := x.stdlib(fr, ins, fn, args, st); ok {
		return v
	}
	if x.panicFn != nil && x.useMode == 0 && x.specDepth == 0 {
		x.panicPoint(st, ins.Pos(), "call:"+fn.Name(), nil)
	}
	x.note("external %s: result arbitrary, no modelled state changed, no panic (assumed)", fn.String())
	return x.havocResult(st, "ext_"+fn.Name(), fn.Signature.Results())
}

func (x *Exec) bumpAlloc(st *State) {
	ts := x.w.ts
	na := x.w.Fresh("alloc", SInt)
	x.assume(x.w.intLe(st.alloc, na))
	_ = ts
	st.alloc = na
}

func (x *Exec) onStack(fn *ssa.Function) bool {
	for _, f := range x.stack {
		if f == fn {
			return true
		}
	}
	return false
}

// curIsHarness: true when the innermost executing function is the target's own contract function.
func (x *Exec) curIsHarness() bool {
	if len(x.stack) == 0 {
		return false
	}
	return x.target != nil && x.stack[len(x.stack)-1] == x.target.harness
}

// useContract replaces a call by the callee's contract: run the contract
// function with Assume/Assert roles swapped and the call itself havoced.
func (x *Exec) useContract(fr *Frame, ins ssa.Instruction, ct *Contract, args []Value, st *State) Value {
	h := ct.harness
	hargs := append(append([]Value{}, args...), &HavocCall{c: ct})
	x.useMode++
	savedCall, savedUse, savedPre := x.useSite, x.curUse, x.preCount
	x.useSite, x.curUse, x.preCount = ins, ct, 0
	var result Value
	x.lastHavocResult = nil
	x.entryAllocs = append(x.entryAllocs, st.alloc)
	func() {
		defer func() {
			x.useMode--
			x.useSite, x.curUse, x.preCount = savedCall, savedUse, savedPre
			x.entryAllocs = x.entryAllocs[:len(x.entryAllocs)-1]
		}()
		_, nst := x.callFunction(h, hargs, nil, st)
		if nst == nil {
			unsup("contract function %s does not return", h.Name())
		}
		st.heap, st.alloc, st.guard, st.epoch = nst.heap, nst.alloc, nst.guard, nst.epoch
		result = x.lastHavocResult
	}()
	return result
}

func (x *Exec) havocCall(fr *Frame, hc *HavocCall, args []Value, c *ssa.CallCommon, st *State) Value {
	// havoc declared frame
	for _, a := range x.pendingModifies {
		v := x.w.Fresh("mod", x.w.sortOf(a.curT))
		x.assume(x.w.validFacts(v, a.curT, st.alloc, 0))
		x.store(st, a, v)
	}
	for _, cn := range x.pendingModComps {
		x.havocComp(st, cn)
	}
	for _, m := range x.pendingRows {
		h := x.comp(st, m.comp, x.compSort[m.comp])
		_, rowSort, _ := h.sort.arrParts()
		st.heap[m.comp] = x.w.ts.Store(h, m.rowOf, x.w.Fresh("row", rowSort))
	}
	if x.pendingAll {
		x.havocAll(st)
		x.pendingAll = false
	}
	x.pendingModifies, x.pendingModComps, x.pendingRows = nil, nil, nil
	x.bumpAlloc(st)
	res := x.havocResult(st, "res_"+hc.c.Name, c.Signature().Results())
	x.lastHavocResult = res
	return res
}

func (x *Exec) intrinsic(fr *Frame, ins ssa.Instruction, fn *ssa.Function, args []Value, st *State) Value {
	ts := x.w.ts
	name := fn.Name()
	if o := fn.Origin(); o != nil {
		name = o.Name()
	}
	switch name {
	case "Assume":
		c := args[0].(*Term)
		if x.useMode > 0 && x.curUse != nil && x.target != nil && x.curUse.PkgPath != x.target.PkgPath && isVerifGlobalsCall(ins) {
			// the callee package's verifGlobals(): its package-level variables are
			// initialised once and never reassigned (standing assumption, listed in
			// every evidence file); a caller in another package cannot re-derive it
			x.countPre()
			x.assumeIn(st, c)
			x.note("verifGlobals() of package %s assumed at calls from package %s", x.curUse.PkgPath, x.target.PkgPath)
		} else if x.useMode > 0 {
			// precondition of a used contract: obligation at the call site
			pos := ins.Pos()
			if x.useSite != nil {
				pos = x.useSite.Pos()
			}
			saved := x.specDepth
			x.specDepth = 0
			x.oblige(st, "pre", x.curUse.Name+"."+fmt.Sprint(x.countPre()), c, pos)
			x.specDepth = saved
		} else {
			x.assumeIn(st, c)
		}
		return nil
	case "Assert":
		c := args[1].(*Term)
		label := x.constString(ins, 0)
		if x.useMode > 0 {
			x.assumeIn(st, c)
		} else {
			saved, savedFn := x.specDepth, x.curFn
			x.specDepth = 0
			if x.targetFn != nil {
				x.curFn = x.targetFn
			}
			x.oblige(st, "post", label, c, ins.Pos())
			x.specDepth, x.curFn = saved, savedFn
		}
		return nil
	case "Cover":
		c := args[1].(*Term)
		if x.useMode == 0 {
			label := x.constString(ins, 0)
			x.obls = append(x.obls, &Obligation{Name: shortFn(x.targetName()) + "/cover:" + label, Kind: "cover", Pos: x.position(ins.Pos()),
				Fn: x.targetName(), nAssume: len(x.assumes), goal: ts.And(st.guard, c), IsCover: true})
		}
		return nil
	case "Forall", "Exists", "Forall2", "Exists2", "ForallAny":
		cl, ok := args[0].(*Closure)
		var f *ssa.Function
		var binds []Value
		if ok {
			f, binds = cl.fn, cl.bindings
		} else if fr2, ok := args[0].(*FuncRef); ok {
			f = fr2.fn
		} else {
			unsup("quantifier over non-literal function")
		}
		var bvars []*Term
		var bargs []Value
		var facts []*Term
		for _, p := range f.Params {
			b := ts.BoundAt(p.Name(), x.w.sortOf(p.Type()), x.quantDepth)
			bvars = append(bvars, b)
			bargs = append(bargs, b)
			if name == "ForallAny" {
				// axiom-style quantifier: over every reference, allocated or not
				if b.sort == SInt {
					facts = append(facts, x.w.intLe(ts.IntLit(0), b))
				}
			} else {
				facts = append(facts, x.w.validFacts(b, p.Type(), st.alloc, 0))
			}
		}
		sub := st.clone()
		sub.guard = ts.True()
		x.specDepth++
		x.quantDepth++
		res, nst := x.callFunction(f, bargs, binds, sub)
		x.quantDepth--
		x.specDepth--
		if nst == nil {
			unsup("quantifier body does not return")
		}
		body := res[0].(*Term)
		if strings.HasPrefix(name, "Forall") {
			return ts.Quant("forall", bvars, ts.Implies(ts.And(facts...), body))
		}
		return ts.Quant("exists", bvars, ts.And(ts.And(facts...), body))
	case "Modifies":
		a := x.toAddr(args[0], fn.Params[0].Type())
		if row, ok := x.arrayFieldRow(st, a); ok {
			at := a.curT.Underlying().(*types.Array)
			if _, isStruct := at.Elem().Underlying().(*types.Struct); isStruct {
				unsup("modifies of an embedded array of structs: name the element fields instead")
			}
			n, srt := x.elemComp(at.Elem())
			x.comp(st, n, srt)
			if x.useMode > 0 {
				x.pendingRows = append(x.pendingRows, modEntry{rowOf: row, comp: n})
			} else {
				x.declaredModifies = append(x.declaredModifies, modEntry{rowOf: row, comp: n})
			}
			return nil
		}
		if x.useMode > 0 {
			x.pendingModifies = append(x.pendingModifies, a)
		} else {
			x.declaredModifies = append(x.declaredModifies, modEntry{addr: a})
		}
		return nil
	case "ModifiesAll":
		if x.useMode > 0 {
			x.pendingAll = true
		} else {
			x.declaredAll = true
		}
		return nil
	case "ModifiesContents":
		// slice: its backing row; map: the contents of maps of that type
		if mt, ok := fn.Params[0].Type().Underlying().(*types.Map); ok {
			dn, vn, ln, ks, vs := x.mapComps(mt)
			x.comp(st, dn, SArr(SInt, SArr(ks, SBool)))
			x.comp(st, vn, SArr(SInt, SArr(ks, vs)))
			x.comp(st, ln, SArr(SInt, SBV(64)))
			m, _ := args[0].(*Term)
			for _, cn := range []string{dn, vn, ln} {
				if x.useMode > 0 {
					x.pendingRows = append(x.pendingRows, modEntry{rowOf: m, comp: cn})
				} else {
					x.declaredModifies = append(x.declaredModifies, modEntry{rowOf: m, comp: cn})
				}
			}
			return nil
		}
		fallthrough
	case "ModifiesElems":
		// whole backing row of a slice
		s := args[0].(*Term)
		et := fn.Params[0].Type().Underlying().(*types.Slice).Elem()
		n, srt := x.elemComp(et)
		x.comp(st, n, srt)
		if x.useMode > 0 {
			x.pendingRows = append(x.pendingRows, modEntry{rowOf: x.w.sArr(s), comp: n})
		} else {
			x.declaredModifies = append(x.declaredModifies, modEntry{rowOf: x.w.sArr(s), comp: n})
		}
		return nil
	case "Snap":
		// ghost copy of a slice: fresh backing array holding the current contents
		s := args[0].(*Term)
		et := fn.Params[0].Type().Underlying().(*types.Slice).Elem()
		n, srt := x.elemComp(et)
		h := x.comp(st, n, srt)
		r := x.allocRef(st, "snap")
		st.heap[n] = ts.Store(h, r, ts.Select(h, x.w.sArr(s)))
		return x.w.mkSlice(r, x.w.sOff(s), x.w.sLen(s), x.w.sCap(s))
	case "Ghost1":
		// uninterpreted ghost function (its meaning comes from the facts contracts state about it)
		gname := x.constString(ins, 0)
		a, ok := args[1].(*Term)
		if !ok {
			unsup("Ghost1 argument is not a term")
		}
		rt := fn.Signature.Results().At(0).Type()
		r := x.w.Fun("ghost_"+sanitize(gname), x.w.sortOf(rt), a)
		return r
	case "Fresh":
		// the reference was allocated during the call the contract describes
		a := args[0].(*Term)
		if a.sort == SSlice {
			a = x.w.sArr(a)
		}
		entry := x.w.Const("alloc!0", SInt)
		if n := len(x.entryAllocs); n > 0 {
			entry = x.entryAllocs[n-1]
		}
		return x.w.intLt(entry, a)
	case "DynResult":
		// the value returned by the k-th opaque dynamic call of a method (see `ghostresult`)
		mname := x.constString(ins, 0)
		recv, ok1 := args[1].(*Term)
		kt, ok2 := args[2].(*Term)
		if !ok1 || !ok2 {
			unsup("DynResult arguments")
		}
		kv, isConst := kt.bvConst()
		if !isConst {
			unsup("DynResult: the call number must be a constant")
		}
		rt := fn.Signature.Results().At(0).Type()
		return x.w.Fun("ghostdyn_"+mname, x.w.sortOf(rt), recv, ts.IntLit(int64(kv)))
	case "Visited":
		// key k has been produced by the latest range loop over map m
		m, k := args[0].(*Term), args[1].(*Term)
		mt := fn.Signature.Params().At(0).Type().Underlying().(*types.Map)
		vn, cn, ks := x.visComps(mt)
		cur := ts.Select(x.comp(st, cn, SArr(SInt, SInt)), m)
		return ts.Select(ts.Select(x.comp(st, vn, SArr(SInt, SArr(ks, SBool))), cur), k)
	case "SameRef":
		a, b := args[0].(*Term), args[1].(*Term)
		if a.sort == SSlice {
			return ts.Eq(x.w.sArr(a), x.w.sArr(b))
		}
		return ts.Eq(a, b)
	case "Disjoint":
		// the two slices do not share a backing array
		a, b := args[0].(*Term), args[1].(*Term)
		return ts.Or(ts.Eq(x.w.sArr(a), ts.IntLit(0)), ts.Eq(x.w.sArr(b), ts.IntLit(0)), ts.Not(ts.Eq(x.w.sArr(a), x.w.sArr(b))))
	case "Old":
		return args[0]
	case "Implies":
		return ts.Implies(args[0].(*Term), args[1].(*Term))
	case "IsNaN":
		return ts.App("fp.isNaN", SBool, args[0].(*Term))
	case "F64bits":
		return x.f64bits(args[0].(*Term))
	case "SameStr":
		return ts.Eq(args[0].(*Term), args[1].(*Term))
	case "AllocBelow":
		return ts.True()
	}
	unsup("unknown verifrt intrinsic %s", name)
	return nil
}

// f64bits: IEEE bit pattern through a fresh bitvector tied by to_fp (NaN payloads are free).
func (x *Exec) f64bits(f *Term) *Term {
	ts := x.w.ts
	bv := x.w.Fun("f64bits", SBV(64), f)
	x.assume(ts.Eq(ts.App("(_ to_fp 11 53)", SF64, bv), f))
	return bv
}

func (x *Exec) f64frombits(bv *Term) *Term {
	return x.w.ts.App("(_ to_fp 11 53)", SF64, bv)
}

func (x *Exec) countPre() int {
	x.preCount++
	return x.preCount
}

func (x *Exec) targetName() string {
	if x.targetFn != nil {
		return x.targetFn.RelString(nil)
	}
	if x.target != nil {
		return x.target.Name
	}
	return "?"
}

func (x *Exec) constString(ins ssa.Instruction, argIdx int) string {
	var c *ssa.CallCommon
	switch in := ins.(type) {
	case *ssa.Call:
		c = &in.Call
	case *ssa.Defer:
		c = &in.Call
	}
	if c != nil && argIdx < len(c.Args) {
		if k, ok := c.Args[argIdx].(*ssa.Const); ok && k.Value != nil && k.Value.Kind() == constant.String {
			return constant.StringVal(k.Value)
		}
	}
	return "?"
}

// ---------------------------------------------------------------------------
// Builtins

func (x *Exec) builtin(fr *Frame, ins ssa.Instruction, b *ssa.Builtin, c *ssa.CallCommon, st *State) Value {
	ts := x.w.ts
	switch b.Name() {
	case "len", "cap":
		v := x.term(fr, c.Args[0])
		switch t := c.Args[0].Type().Underlying().(type) {
		case *types.Slice:
			if b.Name() == "len" {
				return x.w.sLen(v)
			}
			return x.w.sCap(v)
		case *types.Basic:
			return x.w.strLen(v)
		case *types.Map:
			r := x.mapLen(st, v)
			// an empty map has no keys
			dn, _, _, ks, _ := x.mapComps(t)
			b := ts.Bound("lk", ks)
			d := ts.Select(x.comp(st, dn, SArr(SInt, SArr(ks, SBool))), v)
			x.assume(ts.Implies(ts.And(ts.Eq(r, ts.BV(0, 64)), ts.Not(ts.Eq(v, ts.IntLit(0)))), ts.Quant("forall", []*Term{b}, ts.Not(ts.Select(d, b)))))
			return r
		case *types.Array:
			return ts.BV(uint64(t.Len()), 64)
		case *types.Pointer:
			return ts.BV(uint64(t.Elem().Underlying().(*types.Array).Len()), 64)
		case *types.Chan:
			return x.w.Fresh("chanlen", SBV(64))
		}
	case "append":
		return x.appendBuiltin(fr, ins, c, st)
	case "copy":
		return x.copyBuiltin(fr, ins, c, st)
	case "delete":
		m := x.term(fr, c.Args[0])
		k := x.term(fr, c.Args[1])
		x.mapDelete(st, c.Args[0].Type().Underlying().(*types.Map), m, k)
		return nil
	case "print", "println":
		return nil
	case "recover":
		return x.w.ifaceNil()
	case "min", "max":
		a, bb := x.term(fr, c.Args[0]), x.term(fr, c.Args[1])
		if len(c.Args) != 2 || a.sort.bvWidth() == 0 {
			unsup("min/max form")
		}
		op := "bvult"
		if isSigned(c.Args[0].Type()) {
			op = "bvslt"
		}
		lt := ts.App(op, SBool, a, bb)
		if b.Name() == "min" {
			return ts.Ite(lt, a, bb)
		}
		return ts.Ite(lt, bb, a)
	case "clear":
		unsup("clear builtin")
	case "close":
		return nil
	case "ssa:wrapnilchk":
		v := x.term(fr, c.Args[0])
		x.safety(st, "nil", ins, describe(c.Args[0]), ts.Not(ts.Eq(v, ts.IntLit(0))))
		return v
	}
	unsup("builtin %s", b.Name())
	return nil
}

func (x *Exec) appendBuiltin(fr *Frame, ins ssa.Instruction, c *ssa.CallCommon, st *State) Value {
	ts := x.w.ts
	s := x.term(fr, c.Args[0])
	st0 := c.Args[0].Type().Underlying().(*types.Slice)
	et := st0.Elem()
	n, srt := x.elemComp(et)
	h := x.comp(st, n, srt)
	// second argument: slice or string
	var addLen *Term
	var srcRow, srcOff *Term
	if isString(c.Args[1].Type()) {
		sv := x.term(fr, c.Args[1])
		addLen = x.w.strLen(sv)
		srcRow = x.w.Fun("str_bytes", SArr(SBV(64), SBV(8)), sv)
		srcOff = ts.BV(0, 64)
	} else {
		tv := x.term(fr, c.Args[1])
		addLen = x.w.sLen(tv)
		srcRow = ts.Select(h, x.w.sArr(tv))
		srcOff = x.w.sOff(tv)
	}
	oldLen, oldCap := x.w.sLen(s), x.w.sCap(s)
	newLen := x.bvOp("bvadd", oldLen, addLen)
	fits := x.w.bvule(newLen, oldCap)
	// Result: in place if it fits, else a fresh array. The fresh array is
	// modelled with the same offset as the old slice and a row equal to the
	// old row (cells outside the slice window are unobservable), so both
	// cases are "old row updated on [off+len, off+newLen)".
	r := x.allocRef(st, "append")
	newCap := x.w.Fresh("appcap", SBV(64))
	x.assume(ts.And(x.w.bvule(newLen, newCap), x.w.bvult(newCap, x.w.existingLenBound())))
	x.assume(x.w.bvult(newLen, x.w.existingLenBound())) // memory is finite
	arr := ts.Ite(fits, x.w.sArr(s), r)
	off := x.w.sOff(s)
	cp := ts.Ite(fits, oldCap, newCap)
	_, rowSort, _ := srt.arrParts()
	oldRow := ts.Select(h, x.w.sArr(s))
	var newRow *Term
	if one, ok := x.singleElem(fr, c.Args[1]); ok {
		newRow = ts.Store(oldRow, x.bvOp("bvadd", off, oldLen), one)
	} else {
		nr := x.w.Fresh("approw", rowSort)
		j := ts.Bound("j", SBV(64))
		app := ts.Quant("forall", []*Term{j}, ts.Implies(x.w.bvult(j, addLen),
			ts.Eq(ts.Select(nr, x.bvOp("bvadd", off, x.bvOp("bvadd", oldLen, j))), ts.Select(srcRow, x.bvOp("bvadd", srcOff, j)))))
		k := ts.Bound("k", SBV(64))
		lo := x.bvOp("bvadd", off, oldLen)
		hi := x.bvOp("bvadd", off, newLen)
		frame := ts.Quant("forall", []*Term{k}, ts.Implies(ts.Or(x.w.bvult(k, lo), x.w.bvule(hi, k)),
			ts.Eq(ts.Select(nr, k), ts.Select(oldRow, k))))
		x.assume(ts.And(app, frame))
		newRow = nr
	}
	st.heap[n] = ts.Store(h, arr, newRow)
	return x.w.mkSlice(arr, off, newLen, cp)
}

// shiftRow: row r with r[i] = old[off+i] for i < n (copy into a fresh array at offset 0).
func (x *Exec) shiftRow(st *State, old, off, n *Term, rowSort Sort) *Term {
	ts := x.w.ts
	if off.kind == kLeaf {
		if v, ok := off.bvConst(); ok && v == 0 {
			return old
		}
	}
	nr := x.w.Fresh("cprow", rowSort)
	i := ts.Bound("i", SBV(64))
	x.assume(ts.Quant("forall", []*Term{i}, ts.Implies(x.w.bvult(i, n), ts.Eq(ts.Select(nr, i), ts.Select(old, x.bvOp("bvadd", off, i))))))
	return nr
}

// singleElem recognises the SSA shape of append(s, e): the variadic slice is
// new [1]T; store e; slice [:] .
func (x *Exec) singleElem(fr *Frame, v ssa.Value) (*Term, bool) {
	sl, ok := v.(*ssa.Slice)
	if !ok {
		return nil, false
	}
	al, ok := sl.X.(*ssa.Alloc)
	if !ok {
		return nil, false
	}
	at, ok := al.Type().(*types.Pointer).Elem().Underlying().(*types.Array)
	if !ok || at.Len() != 1 {
		return nil, false
	}
	// find the store into element 0
	for _, ref := range *al.Referrers() {
		ia, ok := ref.(*ssa.IndexAddr)
		if !ok {
			continue
		}
		for _, r2 := range *ia.Referrers() {
			if s, ok := r2.(*ssa.Store); ok && s.Addr == ia {
				if t, ok := x.get(fr, s.Val).(*Term); ok {
					return t, true
				}
			}
		}
	}
	return nil, false
}

func (x *Exec) copyBuiltin(fr *Frame, ins ssa.Instruction, c *ssa.CallCommon, st *State) Value {
	ts := x.w.ts
	dst := x.term(fr, c.Args[0])
	et := c.Args[0].Type().Underlying().(*types.Slice).Elem()
	n, srt := x.elemComp(et)
	h := x.comp(st, n, srt)
	var srcLen, srcRow, srcOff *Term
	if isString(c.Args[1].Type()) {
		sv := x.term(fr, c.Args[1])
		srcLen, srcRow, srcOff = x.w.strLen(sv), x.w.Fun("str_bytes", SArr(SBV(64), SBV(8)), sv), ts.BV(0, 64)
	} else {
		sv := x.term(fr, c.Args[1])
		srcLen, srcRow, srcOff = x.w.sLen(sv), ts.Select(h, x.w.sArr(sv)), x.w.sOff(sv)
	}
	cnt := ts.Ite(x.w.bvult(srcLen, x.w.sLen(dst)), srcLen, x.w.sLen(dst))
	_, rowSort, _ := srt.arrParts()
	oldRow := ts.Select(h, x.w.sArr(dst))
	nr := x.w.Fresh("copyrow", rowSort)
	i := ts.Bound("i", SBV(64))
	doff := x.w.sOff(dst)
	x.assume(ts.Quant("forall", []*Term{i}, ts.Implies(x.w.bvult(i, cnt),
		ts.Eq(ts.Select(nr, x.bvOp("bvadd", doff, i)), ts.Select(srcRow, x.bvOp("bvadd", srcOff, i))))))
	k := ts.Bound("k", SBV(64))
	x.assume(ts.Quant("forall", []*Term{k}, ts.Implies(ts.Or(x.w.bvult(k, doff), x.w.bvule(x.bvOp("bvadd", doff, cnt), k)),
		ts.Eq(ts.Select(nr, k), ts.Select(oldRow, k)))))
	// (for cnt == 0 the frame fact already makes nr equal to the old row everywhere)
	st.heap[n] = ts.Store(h, x.w.sArr(dst), nr)
	return cnt
}

// countLeaves counts the leaves of an ite tree (capped).
func countLeaves(t *Term, n int) int {
	if n > 64 {
		return n
	}
	if t.kind == kApp && t.op == "ite" {
		n = countLeaves(t.args[1], n)
		return countLeaves(t.args[2], n)
	}
	return n + 1
}

// dispatch devirtualises an interface method call when the receiver term is
// (an ite tree of) known constructor applications: the concrete method is
// called statically (its contract is used, or its body inlined).
func (x *Exec) dispatch(fr *Frame, ins ssa.Instruction, c *ssa.CallCommon, recv *Term, args []Value, st *State) (Value, bool) {
	ts := x.w.ts
	if recv.kind == kApp && recv.op == "ite" {
		cond := recv.args[0]
		sa, sb := st.clone(), st.clone()
		sa.guard = ts.And(st.guard, cond)
		sb.guard = ts.And(st.guard, ts.Not(cond))
		var ra, rb Value
		oka, okb := true, true
		if !sa.guard.isFalse() {
			ra, oka = x.dispatch(fr, ins, c, recv.args[1], args, sa)
		}
		if !sb.guard.isFalse() {
			rb, okb = x.dispatch(fr, ins, c, recv.args[2], args, sb)
		}
		if !oka || !okb {
			return nil, false
		}
		switch {
		case sa.guard.isFalse():
			st.heap, st.alloc, st.guard, st.epoch = sb.heap, sb.alloc, sb.guard, sb.epoch
			return rb, true
		case sb.guard.isFalse():
			st.heap, st.alloc, st.guard, st.epoch = sa.heap, sa.alloc, sa.guard, sa.epoch
			return ra, true
		}
		m := x.mergeStatesRel([]*Term{sa.guard, sb.guard}, []*Term{cond, ts.Not(cond)}, []*State{sa, sb})
		st.heap, st.alloc, st.guard, st.epoch = m.heap, m.alloc, m.guard, m.epoch
		if ra == nil && rb == nil {
			return nil, true
		}
		return x.mergeVals(cond, ra, rb), true
	}
	if recv.kind == kApp && strings.HasPrefix(recv.op, "box_") && recv.op != "box_other" {
		var bi *boxInfo
		for _, k := range x.w.boxOrder {
			if x.w.boxes[k].ctor == recv.op {
				bi = x.w.boxes[k]
			}
		}
		if bi == nil {
			return nil, false
		}
		sel := x.prog.MethodSets.MethodSet(bi.typ).Lookup(c.Method.Pkg(), c.Method.Name())
		if sel == nil {
			return nil, false
		}
		fn := x.prog.MethodValue(sel)
		if fn == nil {
			return nil, false
		}
		cargs := append([]Value{recv.args[0]}, args...)
		return x.staticCall(fr, ins, fn, nil, cargs, c, st), true
	}
	if recv.kind == kLeaf && recv.op == "iface_nil" {
		st.guard = ts.False()
		return x.havocResult(st, "nilrecv", c.Signature().Results()), true
	}
	if x.noOpaqueDispatch > 0 {
		return nil, false
	}
	// opaque receiver: closed-world case split over the constructor types
	// known so far that have the method; any other dynamic type: arbitrary result
	var cands []*boxInfo
	for _, k := range x.w.boxOrder {
		bi := x.w.boxes[k]
		if x.prog.MethodSets.MethodSet(bi.typ).Lookup(c.Method.Pkg(), c.Method.Name()) != nil {
			cands = append(cands, bi)
		}
	}
	if len(cands) == 0 || len(cands) > 10 {
		return nil, false
	}
	x.noOpaqueDispatch++
	defer func() { x.noOpaqueDispatch-- }()
	var conds, rels []*Term
	var sts []*State
	var vals []Value
	rest := st.guard
	for _, bi := range cands {
		is := x.w.isBox(bi.typ, recv)
		sub := st.clone()
		sub.guard = ts.And(st.guard, is)
		rest = ts.And(rest, ts.Not(is))
		if sub.guard.isFalse() {
			continue
		}
		payload := x.w.unbox(bi.typ, recv)
		x.assume(ts.Implies(is, x.w.validFacts(payload, bi.typ, st.alloc, 0)))
		v, ok := x.dispatch(fr, ins, c, x.w.box(bi.typ, payload), args, sub)
		if !ok {
			return nil, false
		}
		if sub.guard.isFalse() {
			continue
		}
		conds = append(conds, sub.guard)
		rels = append(rels, is)
		sts = append(sts, sub)
		vals = append(vals, v)
	}
	if !rest.isFalse() {
		sub := st.clone()
		sub.guard = rest
		x.note("dynamic call %s.%s on a type outside the contract's vocabulary: result arbitrary, no modelled state changed, no panic (assumed)", shortTypeString(c.Value.Type()), c.Method.Name())
		conds = append(conds, rest)
		rels = append(rels, ts.True())
		sts = append(sts, sub)
		vals = append(vals, x.havocResult(sub, "invoke_"+c.Method.Name(), c.Signature().Results()))
	}
	if len(sts) == 0 {
		st.guard = ts.False()
		return x.havocResult(st, "noreach", c.Signature().Results()), true
	}
	m := x.mergeStatesRel(conds, rels, sts)
	st.heap, st.alloc, st.guard, st.epoch = m.heap, m.alloc, m.guard, m.epoch
	var cur Value
	for i := len(vals) - 1; i >= 0; i-- {
		if cur == nil {
			cur = vals[i]
		} else if vals[i] != nil {
			cur = x.mergeVals(rels[i], vals[i], cur)
		}
	}
	return cur, true
}

// frameCheck: everything that existed before the call and is not named in a
// modifies clause is unchanged (per heap component; skolemised reference).
func (x *Exec) frameCheck(pre, post *State, ins ssa.Instruction) {
	ts := x.w.ts
	if x.declaredAll {
		return
	}
	names := map[string]bool{}
	for n := range post.heap {
		names[n] = true
	}
	var sorted []string
	for n := range names {
		sorted = append(sorted, n)
	}
	sort.Strings(sorted)
	savedFn := x.curFn
	if x.targetFn != nil {
		x.curFn = x.targetFn
	}
	defer func() { x.curFn = savedFn }()
	for _, n := range sorted {
		if strings.HasPrefix(n, "Gvis_") || strings.HasPrefix(n, "Gcur_") {
			continue // ghost state of map iteration: not memory
		}
		a1 := post.heap[n]
		a0 := x.comp(pre, n, x.compSort[n])
		if a0 == a1 {
			continue
		}
		// expected: a0 updated at the declared locations with the new contents
		exp := a0
		whole := false
		for _, m := range x.declaredModifies {
			a := m.addr
			if m.rowOf != nil {
				if m.comp == n {
					exp = ts.Store(exp, m.rowOf, ts.Select(a1, m.rowOf))
				}
				continue
			}
			switch a.root {
			case rField:
				cn, _ := x.fieldComp(a.structT, a.field)
				if cn == n {
					exp = ts.Store(exp, a.ref, ts.Select(a1, a.ref))
				}
			case rCell:
				if st, ok := a.cellT.Underlying().(*types.Struct); ok {
					for i := 0; i < st.NumFields(); i++ {
						cn, _ := x.fieldComp(a.cellT, i)
						if cn == n && (len(a.path) == 0 || (a.path[0].isField && a.path[0].field == i)) {
							exp = ts.Store(exp, a.ref, ts.Select(a1, a.ref))
						}
					}
				} else if cn, _ := x.cellComp(a.cellT); cn == n {
					exp = ts.Store(exp, a.ref, ts.Select(a1, a.ref))
				}
			case rElem:
				if cn, _ := x.elemComp(a.elemT); cn == n {
					row0 := ts.Select(exp, a.arr)
					exp = ts.Store(exp, a.arr, ts.Store(row0, a.idx, ts.Select(ts.Select(a1, a.arr), a.idx)))
				}
			case rGlobal:
				if cn, _ := x.globComp(a.glob); cn == n {
					whole = true
				}
			}
		}
		if whole {
			continue
		}
		idxSort, _, isArr := a1.sort.arrParts()
		if !isArr {
			x.oblige(post, "frame", n, ts.Eq(a1, exp), ins.Pos())
			continue
		}
		if idxSort != SInt {
			x.oblige(post, "frame", n, ts.Eq(a1, exp), ins.Pos())
			continue
		}
		r := x.w.Fresh("frame_ref", SInt)
		old := ts.And(x.w.intLe(ts.IntLit(0), r), x.w.intLe(r, pre.alloc))
		x.oblige(post, "frame", n, ts.Implies(old, ts.Eq(ts.Select(a1, r), ts.Select(exp, r))), ins.Pos())
	}
}

// sameText: the two panics clauses name the same predicate (their arguments
// are the callee's resp. the caller's name for the same object: checked by
// the callee's precondition at the call).
func sameText(a, b string) bool {
	pa, _, _ := strings.Cut(strings.TrimSpace(a), "(")
	pb, _, _ := strings.Cut(strings.TrimSpace(b), "(")
	return strings.TrimSpace(pa) == strings.TrimSpace(pb)
}

// setupPanicMode: `panics pred(a, b)` names a spec function of the package
// and, as arguments, parameters of the function under contract.
func (x *Exec) setupPanicMode(ct *Contract, fn *ssa.Function, args []Value) {
	txt := strings.TrimSpace(ct.Panics)
	i := strings.Index(txt, "(")
	if i < 0 || !strings.HasSuffix(txt, ")") {
		unsup("panics clause must be pred(params...)")
	}
	name := strings.TrimSpace(txt[:i])
	pf := fn.Pkg.Func(name)
	if pf == nil {
		unsup("panics clause: no function %s", name)
	}
	var pargs []Value
	for _, a := range strings.Split(txt[i+1:len(txt)-1], ",") {
		a = strings.TrimSpace(a)
		found := false
		if a == "$recv" && len(args) > 0 {
			pargs = append(pargs, args[0])
			continue
		}
		for k, p := range ct.Params {
			if p == a && k < len(args) {
				pargs = append(pargs, args[k])
				found = true
			}
		}
		if !found {
			for k, p := range fn.Params {
				if p.Name() == a && k < len(args) {
					pargs = append(pargs, args[k])
					found = true
					break
				}
			}
		}
		if !found {
			unsup("panics clause: %s is not a parameter", a)
		}
	}
	x.panicFn, x.panicArgs = pf, pargs
	if x.panicKnown == nil {
		x.panicKnown = map[int]bool{}
	}
}

// isVerifGlobalsCall: the intrinsic's argument is the result of verifGlobals().
func isVerifGlobalsCall(ins ssa.Instruction) bool {
	ci, ok := ins.(ssa.CallInstruction)
	if !ok || len(ci.Common().Args) == 0 {
		return false
	}
	if c, ok := ci.Common().Args[0].(*ssa.Call); ok {
		if f := c.Call.StaticCallee(); f != nil && f.Name() == "verifGlobals" {
			return true
		}
	}
	return false
}
