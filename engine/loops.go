package main

import (
	"sort"
	"fmt"
	"go/ast"
	"go/constant"
	"go/token"
	"go/types"
	"os"
	"strings"

	"golang.org/x/tools/go/ssa"
)

// ---------------------------------------------------------------------------
// Mod-set analysis (which heap components a set of blocks may write)

// modInfo: how a heap component may be written: everywhere (whole) or only
// at the references / rows named by SSA values of the analysed function.
type modInfo struct {
	sort  Sort
	whole bool
	refs  []ssa.Value // field / cell components: pointer values; element components: slice values (their backing row)
	accum []*ssa.Phi  // element components: append accumulators (write their entry array or fresh arrays)
}

type modset map[string]*modInfo

func (m modset) get(n string, s Sort) *modInfo {
	mi := m[n]
	if mi == nil {
		mi = &modInfo{sort: s}
		m[n] = mi
	}
	return mi
}

func (m modset) whole(n string, s Sort) { m.get(n, s).whole = true }

func (m modset) at(n string, s Sort, v ssa.Value) {
	mi := m.get(n, s)
	for _, r := range mi.refs {
		if r == v {
			return
		}
	}
	mi.refs = append(mi.refs, v)
}

func (x *Exec) addrRootComp(v ssa.Value, out modset) {
	switch a := v.(type) {
	case *ssa.FieldAddr:
		if ia, ok := a.X.(*ssa.IndexAddr); ok {
			if pt, ok := ia.X.Type().Underlying().(*types.Pointer); ok {
				if at, ok := pt.Elem().Underlying().(*types.Array); ok {
					if _, isStruct := at.Elem().Underlying().(*types.Struct); isStruct {
						if _, emb := ia.X.(*ssa.FieldAddr); emb {
							// field of an element object of an array of structs embedded in a struct
							n, s := x.fieldComp(at.Elem(), a.Field)
							out.whole(n, s)
							return
						}
					}
				}
			}
		}
		switch a.X.(type) {
		case *ssa.FieldAddr, *ssa.IndexAddr:
			x.addrRootComp(a.X, out)
			return
		}
		st := a.X.Type().Underlying().(*types.Pointer).Elem()
		n, s := x.fieldComp(st, a.Field)
		out.at(n, s, a.X)
	case *ssa.IndexAddr:
		switch xt := a.X.Type().Underlying().(type) {
		case *types.Slice:
			n, s := x.elemComp(xt.Elem())
			out.at(n, s, a.X)
		case *types.Pointer:
			at := xt.Elem().Underlying().(*types.Array)
			switch b := a.X.(type) {
			case *ssa.FieldAddr:
				// array embedded in a struct: the elements live in a row of their own
				if _, isStruct := at.Elem().Underlying().(*types.Struct); isStruct {
					// element objects: their fields are written through later FieldAddrs
					return
				}
				n, s := x.elemComp(at.Elem())
				out.at(n, s, b)
				return
			case *ssa.IndexAddr:
				x.addrRootComp(a.X, out)
				return
			}
			n, s := x.cellComp(xt.Elem())
			out.at(n, s, a.X)
		}
	case *ssa.Global:
		n, s := x.globComp(a)
		out.whole(n, s)
	default:
		pt, ok := v.Type().Underlying().(*types.Pointer)
		if !ok {
			return
		}
		if st, ok := pt.Elem().Underlying().(*types.Struct); ok {
			for i := 0; i < st.NumFields(); i++ {
				n, s := x.fieldComp(pt.Elem(), i)
				out.at(n, s, v)
			}
			return
		}
		n, s := x.cellComp(pt.Elem())
		out.at(n, s, v)
	}
}

func (x *Exec) mapCompsInto(mt *types.Map, out modset) {
	dn, vn, ln, ks, vs := x.mapComps(mt)
	out.whole(dn, SArr(SInt, SArr(ks, SBool)))
	out.whole(vn, SArr(SInt, SArr(ks, vs)))
	out.whole(ln, SArr(SInt, SBV(64)))
}

func (x *Exec) mapCompsAt(mt *types.Map, m ssa.Value, out modset) {
	dn, vn, ln, ks, vs := x.mapComps(mt)
	out.at(dn, SArr(SInt, SArr(ks, SBool)), m)
	out.at(vn, SArr(SInt, SArr(ks, vs)), m)
	out.at(ln, SArr(SInt, SBV(64)), m)
}

func (x *Exec) instrMods(ins ssa.Instruction, out modset, visiting map[*ssa.Function]bool) {
	switch in := ins.(type) {
	case *ssa.Store:
		x.addrRootComp(in.Addr, out)
	case *ssa.MapUpdate:
		x.mapCompsAt(in.Map.Type().Underlying().(*types.Map), in.Map, out)
	case *ssa.Next:
		if !in.IsString {
			if mt, ok := in.Iter.(*ssa.Range).X.Type().Underlying().(*types.Map); ok {
				vn, _, ks := x.visComps(mt)
				out.at(vn, SArr(SInt, SArr(ks, SBool)), in.Iter)
			}
		}
	case *ssa.Range:
		if mt, ok := in.X.Type().Underlying().(*types.Map); ok {
			vn, cn, ks := x.visComps(mt)
			out.whole(vn, SArr(SInt, SArr(ks, SBool)))
			out.whole(cn, SArr(SInt, SInt))
		}
	case *ssa.MakeMap:
		// fresh map: no pre-existing location changes
	case *ssa.Alloc:
		// fresh cell: writes only a new reference (no pre-existing location changes)
	case *ssa.MakeSlice, *ssa.Convert, *ssa.Slice:
		// fresh backing rows only
	case *ssa.Call:
		x.callMods(&in.Call, out, visiting)
	case *ssa.Defer:
		x.callMods(&in.Call, out, visiting)
	}
}

func (x *Exec) callMods(c *ssa.CallCommon, out modset, visiting map[*ssa.Function]bool) {
	if b, ok := c.Value.(*ssa.Builtin); ok {
		switch b.Name() {
		case "append", "copy":
			if sl, ok := c.Args[0].Type().Underlying().(*types.Slice); ok {
				n, s := x.elemComp(sl.Elem())
				out.at(n, s, c.Args[0])
			}
		case "delete":
			x.mapCompsAt(c.Args[0].Type().Underlying().(*types.Map), c.Args[0], out)
		}
		return
	}
	var fn *ssa.Function
	switch v := c.Value.(type) {
	case *ssa.Function:
		fn = v
	case *ssa.MakeClosure:
		fn = v.Fn.(*ssa.Function)
	}
	if fn == nil || c.IsInvoke() {
		return // dynamic: assumed not to modify modelled state (recorded at the call)
	}
	if fnPkgPath(fn) == rtPath {
		return
	}
	if !inModule(fn) || fn.Blocks == nil {
		for n, mi := range x.stdlibMods(fn, c) {
			out.whole(n, mi.sort)
		}
		return
	}
	for n, mi := range x.fnMods(fn, visiting) {
		if mi.whole {
			out.whole(n, mi.sort)
			continue
		}
		for _, r := range mi.refs {
			// translate callee parameters to the caller's arguments
			if p, ok := r.(*ssa.Parameter); ok {
				idx := -1
				for i, fp := range fn.Params {
					if fp == p {
						idx = i
					}
				}
				if idx >= 0 && idx < len(c.Args) {
					out.at(n, mi.sort, c.Args[idx])
					continue
				}
			}
			out.whole(n, mi.sort)
		}
	}
}

func (x *Exec) fnMods(fn *ssa.Function, visiting map[*ssa.Function]bool) modset {
	if m, ok := x.modCache[fn]; ok {
		return m
	}
	if visiting[fn] {
		// recursion: be conservative for everything the function touches
		return modset{}
	}
	visiting[fn] = true
	out := modset{}
	for _, b := range fn.Blocks {
		for _, ins := range b.Instrs {
			x.instrMods(ins, out, visiting)
		}
	}
	// writes to objects allocated by fn itself do not change any location that
	// existed before the call; other references that are not parameters of fn
	// cannot be named by callers
	for _, mi := range out {
		var keep []ssa.Value
		for _, r := range mi.refs {
			if isFreshAlloc(r) {
				continue
			}
			keep = append(keep, r)
			if _, ok := r.(*ssa.Parameter); !ok {
				mi.whole = true
			}
		}
		mi.refs = keep
	}
	delete(visiting, fn)
	if len(visiting) == 0 {
		x.modCache[fn] = out
	}
	return out
}

func (x *Exec) loopMods(lp *loop) modset {
	out := modset{}
	for b := range lp.blocks {
		for _, ins := range b.Instrs {
			x.instrMods(ins, out, map[*ssa.Function]bool{})
		}
	}
	// a reference is usable only if it is the same value in every iteration;
	// a slice that is only ever re-assigned by append(self, ...) writes into the
	// array it had at loop entry or into fresh arrays
	written := map[string]bool{}
	for n, mi := range out {
		if mi.whole || len(mi.refs) > 0 {
			written[n] = true
		}
	}
	for _, mi := range out {
		var keep []ssa.Value
		for _, r := range mi.refs {
			if isFreshAlloc(r) && !loopInvariantValue(lp, r) {
				continue // allocated inside the loop: no pre-existing location
			}
			if loopInvariantValue(lp, r) || x.invariantLoad(lp, r, written) {
				keep = append(keep, r)
				continue
			}
			if phi := appendAccumulator(lp, r); phi != nil {
				mi.accum = append(mi.accum, phi)
				continue
			}
			mi.whole = true
		}
		mi.refs = keep
	}
	return out
}

// appendAccumulator: v is a header phi of lp (or a re-slice / append of it)
// whose back-edge values are all append(phi, ...) chains.
func appendAccumulator(lp *loop, v ssa.Value) *ssa.Phi {
	// hdr(v): the header phi that v derives from through append / re-slice /
	// merges inside the loop body, or nil
	var hdr func(v ssa.Value, depth int, seen map[ssa.Value]bool) *ssa.Phi
	hdr = func(v ssa.Value, depth int, seen map[ssa.Value]bool) *ssa.Phi {
		if p, ok := v.(*ssa.Phi); ok && p.Block() == lp.header {
			return p
		}
		if depth > 16 || seen[v] {
			return nil
		}
		seen[v] = true
		defer delete(seen, v)
		switch t := v.(type) {
		case *ssa.Call:
			if b, ok := t.Call.Value.(*ssa.Builtin); ok && b.Name() == "append" {
				return hdr(t.Call.Args[0], depth+1, seen)
			}
		case *ssa.Slice:
			if _, ok := t.X.Type().Underlying().(*types.Slice); ok {
				return hdr(t.X, depth+1, seen)
			}
		case *ssa.Phi:
			if t.Block() == lp.header {
				return t
			}
			if !lp.blocks[t.Block()] {
				return nil
			}
			var res *ssa.Phi
			for _, e := range t.Edges {
				h := hdr(e, depth+1, seen)
				if h == nil || (res != nil && h != res) {
					return nil
				}
				res = h
			}
			return res
		}
		return nil
	}
	phi := hdr(v, 0, map[ssa.Value]bool{})
	if phi == nil {
		return nil
	}
	for j, p := range lp.header.Preds {
		if !lp.blocks[p] {
			continue
		}
		if phi.Edges[j] != phi && hdr(phi.Edges[j], 0, map[ssa.Value]bool{}) != phi {
			return nil
		}
	}
	return phi
}

func loopInvariantValue(lp *loop, v ssa.Value) bool {
	switch t := v.(type) {
	case *ssa.Parameter, *ssa.Const, *ssa.Global, *ssa.FreeVar:
		return true
	case *ssa.FieldAddr:
		if !lp.blocks[t.Block()] {
			return true
		}
		// pure address computation on an invariant base
		return loopInvariantValue(lp, t.X)
	case ssa.Instruction:
		return !lp.blocks[t.Block()]
	}
	return false
}

// invariantLoad: v loads a field through an invariant address, and no write in
// the loop goes to that field's component: the loaded value is invariant too.
func (x *Exec) invariantLoad(lp *loop, v ssa.Value, written map[string]bool) bool {
	u, ok := v.(*ssa.UnOp)
	if !ok || u.Op != token.MUL {
		return false
	}
	fa, ok := u.X.(*ssa.FieldAddr)
	if !ok || !loopInvariantValue(lp, fa) {
		return false
	}
	if _, nested := fa.X.(*ssa.FieldAddr); nested {
		return false
	}
	st := fa.X.Type().Underlying().(*types.Pointer).Elem()
	n, _ := x.fieldComp(st, fa.Field)
	return !written[n]
}

// addrOf evaluates an (invariant) address value that may not have been executed yet.
func (x *Exec) addrOf(fr *Frame, v ssa.Value) Value {
	if val, ok := fr.vals[v]; ok {
		return val
	}
	if u, ok := v.(*ssa.UnOp); ok && u.Op == token.MUL && x.curLoopState != nil {
		if a, ok := x.addrOf(fr, u.X).(*Addr); ok {
			return x.load(x.curLoopState, a)
		}
		return nil
	}
	if isConstLike(v) {
		return x.get(fr, v)
	}
	if fa, ok := v.(*ssa.FieldAddr); ok {
		base := x.addrOf(fr, fa.X)
		if base == nil {
			return nil
		}
		pt := fa.X.Type().Underlying().(*types.Pointer)
		structT := pt.Elem()
		ft := structT.Underlying().(*types.Struct).Field(fa.Field).Type()
		switch b := base.(type) {
		case *Term:
			return &Addr{root: rField, structT: structT, field: fa.Field, ref: b, curT: ft}
		case *Addr:
			n := *b
			n.path = append(append([]pathStep{}, b.path...), pathStep{isField: true, field: fa.Field, structT: structT})
			n.curT = ft
			return &n
		}
	}
	return nil
}

// ---------------------------------------------------------------------------
// Loop cutting

func (x *Exec) loopSpecFor(fr *Frame, lp *loop) *loopSpec {
	if x.target == nil || fr.fn != x.targetFn {
		return nil
	}
	ls := x.target.Loops[lp.ordinal]
	if ls == nil || ls.stale {
		return nil
	}
	return ls
}

// loopSpecResolvable: every variable a loop clause mentions can be found at the
// loop header. If the code changed shape (another kind of loop, a renamed or
// removed variable) the clauses are stale: they are dropped, with a message,
// and the function is checked without them.
func (x *Exec) loopSpecResolvable(fr *Frame, lp *loop, ls *loopSpec, st *State) (ok bool) {
	defer func() {
		if r := recover(); r != nil {
			if u, isU := r.(unsupported); isU {
				fmt.Fprintf(os.Stderr, "STALE-LOOP-CLAUSE contract %s loop %d: %s; clauses ignored\n", x.target.Name, lp.ordinal, u.msg)
				ls.stale = true
				x.staleClauses = append(x.staleClauses, fmt.Sprintf("loop %d: %s", lp.ordinal, u.msg))
				ok = false
				return
			}
			panic(r)
		}
	}()
	for fnName, names := range ls.paramsOf {
		if _, isOld := ls.oldSSA[fnName]; isOld {
			continue
		}
		for _, n := range names {
			if strings.HasPrefix(n, "old:@") {
				continue // prev(e): resolvable once the head state of an iteration exists
			}
			x.resolveName(fr, lp.header, n, st)
		}
	}
	return true
}

// resolveName finds the SSA value holding source variable name at header hdr.
func (x *Exec) resolveName(fr *Frame, hdr *ssa.BasicBlock, name string, st *State) Value {
	fn := fr.fn
	if strings.HasPrefix(name, "old:@") {
		// prev(e): evaluated in the state at the head of the current iteration
		hn := name[5:]
		if v, ok := x.oldCache["@"+hn]; ok {
			return v
		}
		ls := x.loopSpecHolding(hn)
		if ls == nil {
			unsup("prev() helper %s not available", hn)
		}
		head := ls.headState
		if head == nil && x.target != nil {
			// a clause of an inner loop: prev() means the head of the enclosing
			// loop that has step clauses (the lowest ordinal with a saved head state)
			best := -1
			for n, o := range x.target.Loops {
				if o.headState != nil && (best < 0 || n < best) {
					best, head = n, o.headState
				}
			}
		}
		if head == nil {
			unsup("prev() helper %s not available", hn)
		}
		var args []Value
		for _, pn := range ls.paramsOf[hn] {
			var v Value
			for _, p := range fn.Params {
				if p.Name() == pn {
					v = x.get(fr, p)
				}
			}
			if v == nil {
				unsup("prev(): %s is not a parameter", pn)
			}
			args = append(args, v)
		}
		res, nst := x.callFunction(ls.oldSSA[hn], args, nil, head.clone())
		if nst == nil {
			unsup("prev() helper does not return")
		}
		// ghost rows made by the helper (Snap) must exist in the live state: the
		// helpers are evaluated eagerly at the loop head, where the live state
		// still has the head's components
		for k, v := range nst.heap {
			hv := head.heap[k]
			if hv == v {
				continue
			}
			if cur, ok := st.heap[k]; !ok || cur == hv {
				st.heap[k] = v
			} else {
				unsup("prev() helper with Snap evaluated after the state changed")
			}
		}
		if nst.alloc != head.alloc {
			st.alloc = nst.alloc
			head.alloc = nst.alloc
		}
		if x.oldCache == nil {
			x.oldCache = map[string]Value{}
		}
		x.oldCache["@"+hn] = res[0]
		return res[0]
	}
	if strings.HasPrefix(name, "old:#") {
		hn := name[5:]
		if v, ok := x.oldCache[hn]; ok {
			return v
		}
		ls := x.loopSpecHolding(hn)
		if ls == nil || x.entryState == nil {
			unsup("old() helper %s not available", hn)
		}
		var args []Value
		for _, pn := range ls.paramsOf[hn] {
			var v Value
			for _, p := range fn.Params {
				if p.Name() == pn {
					v = x.get(fr, p)
				}
			}
			if v == nil {
				unsup("old(): %s is not a parameter", pn)
			}
			args = append(args, v)
		}
		sub := x.entryState.clone()
		res, nst := x.callFunction(ls.oldSSA[hn], args, nil, sub)
		if nst == nil {
			unsup("old() helper does not return")
		}
		// ghost allocations made by the helper (Snap) must stay visible: copy them into the current state
		for k, v := range nst.heap {
			if _, ok := st.heap[k]; !ok {
				st.heap[k] = v
			}
		}
		if x.oldCache == nil {
			x.oldCache = map[string]Value{}
		}
		x.oldCache[hn] = res[0]
		return res[0]
	}
	if strings.HasPrefix(name, "old:") {
		for _, p := range fn.Params {
			if p.Name() == name[4:] {
				return x.get(fr, p)
			}
		}
		unsup("old(%s): no such parameter", name[4:])
	}
	if name == "verifIdx" {
		for _, ins := range hdr.Instrs {
			if phi, ok := ins.(*ssa.Phi); ok && phi.Comment == "rangeindex" {
				return x.bvOp("bvadd", x.get(fr, phi).(*Term), x.w.ts.BV(1, 64))
			}
		}
		unsup("verifIdx: loop is not a range-over-slice loop")
	}
	for _, ins := range hdr.Instrs {
		if phi, ok := ins.(*ssa.Phi); ok && phi.Comment == name {
			return x.get(fr, phi)
		}
	}
	// search dominating definitions: debug refs and phis, latest first
	var best ssa.Value
	var bestAddr bool
	bestDepth, bestIdx := -1, -1
	depthOf := func(b *ssa.BasicBlock) int {
		d := 0
		for c := b; c != nil; c = c.Idom() {
			d++
		}
		return d
	}
	for _, b := range fn.Blocks {
		if b == hdr || !b.Dominates(hdr) {
			continue
		}
		d := depthOf(b)
		for i, ins := range b.Instrs {
			switch in := ins.(type) {
			case *ssa.Phi:
				if in.Comment == name && (d > bestDepth || (d == bestDepth && i > bestIdx)) {
					best, bestAddr, bestDepth, bestIdx = in, false, d, i
				}
			case *ssa.DebugRef:
				if id, ok := in.Expr.(*ast.Ident); ok && id.Name == name {
					if d > bestDepth || (d == bestDepth && i > bestIdx) {
						best, bestAddr, bestDepth, bestIdx = in.X, in.IsAddr, d, i
					}
				}
			}
		}
	}
	if best != nil {
		if _, ok := fr.vals[best]; ok || isConstLike(best) {
			v := x.get(fr, best)
			if bestAddr {
				a := x.toAddr(v, best.Type())
				return x.load(st, a)
			}
			return v
		}
	}
	for _, p := range fn.Params {
		if p.Name() == name {
			return x.get(fr, p)
		}
	}
	for _, p := range fn.FreeVars {
		if p.Name() == name {
			v := x.get(fr, p)
			return x.load(st, x.toAddr(v, p.Type()))
		}
	}
	unsup("loop clause variable %q not found at loop header in %s", name, fn.Name())
	return nil
}

func isConstLike(v ssa.Value) bool {
	switch v.(type) {
	case *ssa.Const, *ssa.Global, *ssa.Function:
		return true
	}
	return false
}

func (x *Exec) evalLoopFn(fr *Frame, hdr *ssa.BasicBlock, ls *loopSpec, fnName string, f *ssa.Function, st *State) *Term {
	names := ls.paramsOf[fnName]
	args := make([]Value, len(names))
	for i, n := range names {
		args[i] = x.resolveName(fr, hdr, n, st)
	}
	sub := st.clone()
	res, nst := x.callFunction(f, args, nil, sub)
	if nst == nil {
		unsup("loop clause %s does not return", fnName)
	}
	return res[0].(*Term)
}

func (x *Exec) enterLoop(fr *Frame, lp *loop, st *State) {
	ts := x.w.ts
	ls := x.loopSpecFor(fr, lp)
	hdr := lp.header
	if ls != nil && !x.loopSpecResolvable(fr, lp, ls, st) {
		ls = nil
	}
	if ls != nil {
		for k, f := range ls.invSSA {
			v := x.evalLoopFn(fr, hdr, ls, ls.invFns[k], f, st)
			x.oblige(st, "inv-init", ls.invName(lp.ordinal, k), v, hdr.Instrs[0].Pos())
		}
	} else if x.specDepth == 0 {
		x.note("loop %d of %s has no invariant: loop-modified state is arbitrary after the cut", lp.ordinal, shortFn(fr.fn.String()))
	}
	mods := x.loopMods(lp)
	x.curLoopState = st
	defer func() { x.curLoopState = nil }()
	if os.Getenv("GOVC_VERBOSE") != "" {
		for n, mi := range mods {
			fmt.Fprintf(os.Stderr, "loop %d of %s modifies %s whole=%v refs=%d accum=%d\n", lp.ordinal, fr.fn.Name(), n, mi.whole, len(mi.refs), len(mi.accum))
		}
	}
	entryVals := map[*ssa.Phi]Value{}
	for _, ins := range hdr.Instrs {
		if phi, ok := ins.(*ssa.Phi); ok {
			entryVals[phi] = fr.vals[phi]
		}
	}
	allocAtEntry := st.alloc
	x.bumpAlloc(st) // objects allocated by earlier iterations
	// havoc phis
	for _, ins := range hdr.Instrs {
		phi, ok := ins.(*ssa.Phi)
		if !ok {
			break
		}
		changed := false
		for j, p := range hdr.Preds {
			if lp.blocks[p] && phi.Edges[j] != phi {
				changed = true
			}
		}
		if !changed {
			continue // the loop never assigns this variable: it keeps its entry value
		}
		fr.vals[phi] = x.havocLike(st, phi)
	}
	for n, mi := range mods {
		x.compSort[n] = mi.sort
		if mi.whole {
			st.heap[n] = x.w.Fresh(n, mi.sort)
			x.noteBase(st.heap[n], st.alloc)
			continue
		}
		if len(mi.accum) > 0 {
			// rows of the accumulators' entry arrays and of arrays allocated in the
			// loop change; every other pre-existing row is unchanged
			old := x.comp(st, n, mi.sort)
			nh := x.w.Fresh(n, mi.sort)
			x.noteBase(nh, st.alloc)
			ts := x.w.ts
			r := ts.Bound("r", SInt)
			cond := []*Term{x.w.intLe(ts.IntLit(0), r), x.w.intLe(r, allocAtEntry)}
			for _, phi := range mi.accum {
				if ev, ok := entryVals[phi].(*Term); ok && ev.sort == SSlice {
					cond = append(cond, ts.Not(ts.Eq(r, x.w.sArr(ev))))
					// the accumulator itself: same array as at entry, or a fresh one
					if cur, ok := fr.vals[phi].(*Term); ok {
						x.assume(ts.Or(ts.Eq(x.w.sArr(cur), x.w.sArr(ev)), x.w.intLt(allocAtEntry, x.w.sArr(cur))))
						x.assume(ts.Implies(ts.Eq(x.w.sArr(cur), x.w.sArr(ev)), ts.Eq(x.w.sOff(cur), x.w.sOff(ev))))
					}
				}
			}
			for _, rv := range mi.refs {
				if v, ok := x.addrOf(fr, rv).(*Term); ok && v.sort == SSlice {
					cond = append(cond, ts.Not(ts.Eq(r, x.w.sArr(v))))
				}
			}
			x.assume(ts.Quant("forall", []*Term{r}, ts.Implies(ts.And(cond...), ts.Eq(ts.Select(nh, r), ts.Select(old, r)))))
			st.heap[n] = nh
			continue
		}
		// only the named references / rows change
		h := x.comp(st, n, mi.sort)
		_, elemSort, _ := mi.sort.arrParts()
		for _, r := range mi.refs {
			var ref *Term
			switch v := x.addrOf(fr, r).(type) {
			case *Term:
				if v.sort == SSlice {
					ref = x.w.sArr(v)
				} else {
					ref = v
				}
			case *Addr:
				if v.root == rCell && len(v.path) == 0 {
					ref = v.ref
				} else if row, ok := x.arrayFieldRow(st, v); ok {
					ref = row
				}
			case *mapIter:
				ref = v.id
			}
			if ref == nil || ref.sort != SInt {
				h = x.w.Fresh(n, mi.sort)
				break
			}
			h = x.w.ts.Store(h, ref, x.w.Fresh(n+"_at", elemSort))
		}
		st.heap[n] = h
	}
	x.autoInvariants(fr, lp, st)
	if ls != nil && ls.splitSSA != nil {
		x.applyLoopSplit(fr, lp, ls, st)
	}
	if ls != nil && len(ls.stepSSA) > 0 {
		ls.headState = st.clone()
		for k := range x.oldCache {
			if strings.HasPrefix(k, "@") {
				delete(x.oldCache, k)
			}
		}
		// evaluate every prev() helper of the contract now (see resolveName)
		if x.target != nil {
			var ords []int
			for n := range x.target.Loops {
				ords = append(ords, n)
			}
			sort.Ints(ords)
			for _, n := range ords {
				o := x.target.Loops[n]
				var fns []string
				for fnName := range o.paramsOf {
					fns = append(fns, fnName)
				}
				sort.Strings(fns)
				for _, fnName := range fns {
					for _, nm := range o.paramsOf[fnName] {
						if strings.HasPrefix(nm, "old:@") {
							x.resolveName(fr, hdr, nm, st)
							ls.headState.heap, ls.headState.alloc = st.clone().heap, st.alloc
						}
					}
				}
			}
		}
	}
	defer func() {
		if x.panicFn != nil && ls != nil && ls.panicPoint {
			x.establishPanicPred(st, hdr.Instrs[0].Pos(), fmt.Sprintf("loop%d", lp.ordinal))
		}
	}()
	if ls != nil {
		for k, f := range ls.invSSA {
			x.assumeIn(st, x.evalLoopFn(fr, hdr, ls, ls.invFns[k], f, st))
		}
		if ls.decrSSA != nil {
			d := x.evalLoopFn(fr, hdr, ls, ls.decrFn, ls.decrSSA, st)
			lp.decr0 = []*Term{d}
		}
	}
	_ = ts
}

func (x *Exec) havocLike(st *State, phi *ssa.Phi) Value {
	name := phi.Comment
	if name == "" {
		name = phi.Name()
	}
	if _, ok := phi.Type().Underlying().(*types.Pointer); ok {
		// interior pointers flowing around loops are not supported; plain refs are
		return x.symbolicValue(st, "loop_"+name, phi.Type())
	}
	return x.symbolicValue(st, "loop_"+name, phi.Type())
}

func (x *Exec) backEdge(fr *Frame, lp *loop, from *ssa.BasicBlock, cond *Term, st *State) {
	hdr := lp.header
	if x.specDepth == 0 {
		for _, ai := range lp.autoInv {
			for j, p := range hdr.Preds {
				if p != from {
					continue
				}
				nv, ok := x.get(fr, ai.phi.Edges[j]).(*Term)
				if !ok {
					continue
				}
				sub := st.clone()
				sub.guard = cond
				var fact *Term
				switch {
				case ai.bound != nil:
					fact = x.w.ts.Or(x.w.bvslt(nv, ai.bound), x.w.ts.Eq(nv, ai.entry))
				case ai.up:
					fact = x.w.bvsle(ai.entry, nv)
				default:
					fact = x.w.bvsle(nv, ai.entry)
				}
				name := ai.phi.Comment
				if name == "" {
					name = ai.phi.Name()
				}
				x.oblige(sub, "auto-inv", fmt.Sprintf("loop%d.%s", lp.ordinal, name), fact, from.Instrs[len(from.Instrs)-1].Pos())
			}
		}
	}
	ls := x.loopSpecFor(fr, lp)
	if ls == nil {
		return
	}
	// bind header phis to the edge values
	saved := map[*ssa.Phi]Value{}
	for _, ins := range hdr.Instrs {
		phi, ok := ins.(*ssa.Phi)
		if !ok {
			break
		}
		saved[phi] = fr.vals[phi]
	}
	newVals := map[*ssa.Phi]Value{}
	for phi := range saved {
		for j, p := range hdr.Preds {
			if p == from {
				newVals[phi] = x.get(fr, phi.Edges[j])
			}
		}
	}
	for phi, v := range newVals {
		fr.vals[phi] = v
	}
	sub := st.clone()
	sub.guard = cond
	for k, f := range ls.invSSA {
		v := x.evalLoopFn(fr, hdr, ls, ls.invFns[k], f, sub)
		x.oblige(sub, "inv-step", ls.invName(lp.ordinal, k), v, from.Instrs[len(from.Instrs)-1].Pos())
	}
	for k, f := range ls.stepSSA {
		v := x.evalLoopFn(fr, hdr, ls, ls.stepFns[k], f, sub)
		name := fmt.Sprintf("loop%d.%d", lp.ordinal, k)
		if ls.steps[k].label != "" {
			name = fmt.Sprintf("loop%d.%s", lp.ordinal, ls.steps[k].label)
		}
		x.oblige(sub, "step", name, v, from.Instrs[len(from.Instrs)-1].Pos())
	}
	if ls.decrSSA != nil && len(lp.decr0) == 1 {
		d := x.evalLoopFn(fr, hdr, ls, ls.decrFn, ls.decrSSA, sub)
		d0 := lp.decr0[0]
		x.oblige(sub, "decreases", fmt.Sprintf("loop%d", lp.ordinal),
			x.w.ts.And(x.w.bvsle(x.w.ts.BV(0, 64), d0), x.w.bvslt(d, d0)), from.Instrs[len(from.Instrs)-1].Pos())
	}
	for phi, v := range saved {
		fr.vals[phi] = v
	}
}

func (x *Exec) loopSpecHolding(helper string) *loopSpec {
	if x.target == nil {
		return nil
	}
	for _, ls := range x.target.Loops {
		if _, ok := ls.oldSSA[helper]; ok {
			return ls
		}
	}
	return nil
}

// autoInvariants: counters. A header phi whose entry value is e and whose
// back-edge value is phi+k (k > 0 constant) satisfies e <= phi; with k < 0,
// phi <= e. The fact is assumed after the havoc and its preservation is an
// obligation of its own at every back edge (so it is proved, not trusted).
func (x *Exec) autoInvariants(fr *Frame, lp *loop, st *State) {
	hdr := lp.header
	for _, ins := range hdr.Instrs {
		phi, ok := ins.(*ssa.Phi)
		if !ok {
			break
		}
		if !isInteger(phi.Type()) || !isSigned(phi.Type()) {
			continue
		}
		var entry ssa.Value
		step := int64(0)
		okShape := true
		for j, p := range hdr.Preds {
			e := phi.Edges[j]
			if lp.blocks[p] {
				bo, ok := e.(*ssa.BinOp)
				if !ok || (bo.Op != token.ADD && bo.Op != token.SUB) || bo.X != phi {
					okShape = false
					break
				}
				c, ok := bo.Y.(*ssa.Const)
				if !ok || c.Value == nil {
					okShape = false
					break
				}
				k, exact := constant.Int64Val(constant.ToInt(c.Value))
				if !exact || k == 0 {
					okShape = false
					break
				}
				if bo.Op == token.SUB {
					k = -k
				}
				if step != 0 && (step > 0) != (k > 0) {
					okShape = false
					break
				}
				step = k
			} else {
				if entry != nil && entry != e {
					okShape = false
					break
				}
				entry = e
			}
		}
		if !okShape || entry == nil || step == 0 {
			continue
		}
		ev, ok := x.get(fr, entry).(*Term)
		if !ok {
			continue
		}
		pv, ok := fr.vals[phi].(*Term)
		if !ok {
			continue
		}
		var fact *Term
		if step > 0 {
			fact = x.w.bvsle(ev, pv)
		} else {
			fact = x.w.bvsle(pv, ev)
		}
		x.assumeIn(st, fact)
		lp.autoInv = append(lp.autoInv, autoInv{phi: phi, entry: ev, up: step > 0})
		// upper bound from the loop test `phi+k < N` (N loop invariant), which
		// guards every back edge: phi < N or phi is still the entry value
		if step > 0 {
			if iff, ok := hdr.Instrs[len(hdr.Instrs)-1].(*ssa.If); ok {
				if cmp, ok := iff.Cond.(*ssa.BinOp); ok && cmp.Op == token.LSS && lp.blocks[hdr.Succs[0]] && !lp.blocks[hdr.Succs[1]] {
					if inc, ok := cmp.X.(*ssa.BinOp); ok && inc.Op == token.ADD && inc.X == phi && loopInvariantValue(lp, cmp.Y) {
						if nv, ok := x.addrOf(fr, cmp.Y).(*Term); ok && nv.sort == pv.sort {
							ub := x.w.ts.Or(x.w.bvslt(pv, nv), x.w.ts.Eq(pv, ev))
							x.assumeIn(st, ub)
							lp.autoInv = append(lp.autoInv, autoInv{phi: phi, entry: ev, bound: nv})
						}
					}
				}
			}
		}
	}
}

// isFreshAlloc: v is (an address inside) a local allocation.
func isFreshAlloc(v ssa.Value) bool {
	switch t := v.(type) {
	case *ssa.Alloc:
		return true
	case *ssa.FieldAddr:
		return isFreshAlloc(t.X)
	case *ssa.MakeSlice, *ssa.MakeMap:
		return true
	}
	return false
}

// loopMayDelete: the loop may remove entries from a map of type mt (a delete,
// or a call that writes maps of that type): then "every entry present at the
// start is produced exactly once" is not assumed for iterations in it.
func (x *Exec) loopMayDelete(lp *loop, mt *types.Map) bool {
	dn, _, _, _, _ := x.mapComps(mt)
	out := modset{}
	for b := range lp.blocks {
		for _, ins := range b.Instrs {
			if _, ok := ins.(*ssa.MapUpdate); ok {
				continue
			}
			x.instrMods(ins, out, map[*ssa.Function]bool{})
		}
	}
	_, touched := out[dn]
	return touched
}

// applyLoopSplit: this run covers the iterations in which the split
// expression has one particular value at the loop head (all alternatives
// together, with `other`, cover every value).
func (x *Exec) applyLoopSplit(fr *Frame, lp *loop, ls *loopSpec, st *State) {
	ts := x.w.ts
	alt := ""
	key := fmt.Sprintf("@loop%d", lp.ordinal)
	for _, ch := range x.combo {
		if ch.param == key {
			alt = ch.alt
		}
	}
	if alt == "" {
		return
	}
	hasOther := false
	for _, a := range ls.splitAlts {
		if a == "other" {
			hasOther = true
		}
	}
	if !hasOther {
		unsup("loop split without an `other` alternative is not exhaustive")
	}
	t := x.evalLoopFn(fr, lp.header, ls, ls.splitFn, ls.splitSSA, st)
	w := t.sort.bvWidth()
	if w == 0 {
		unsup("loop split expression must be an integer")
	}
	if alt == "other" {
		x.splitTerm, x.splitExcluded = t, map[uint64]bool{}
		for _, a := range ls.splitAlts {
			if a == "other" {
				continue
			}
			var k uint64
			fmt.Sscan(a, &k)
			x.assumeIn(st, ts.Not(ts.Eq(t, ts.BV(k, w))))
			x.splitExcluded[k] = true
		}
		return
	}
	var k uint64
	if _, err := fmt.Sscan(alt, &k); err != nil {
		unsup("loop split alternative %q is not a number", alt)
	}
	x.assumeIn(st, ts.Eq(t, ts.BV(k, w)))
	if x.pins == nil {
		x.pins = map[*Term]*Term{}
	}
	x.pins[t] = ts.BV(k, w)
}
