package main

// Term DAG with hash-consing and light simplification. Everything the
// executor produces is a *Term; printing introduces top-level definitions for
// shared closed sub-terms so files stay linear in DAG size.

import (
	"fmt"
	"sort"
	"strconv"
	"strings"
)

type Sort string

const (
	SBool  Sort = "Bool"
	SInt   Sort = "Int" // references
	SStr   Sort = "Str"
	SIface Sort = "Iface"
	SSlice Sort = "Slice"
	SF64   Sort = "(_ FloatingPoint 11 53)"
	SF32   Sort = "(_ FloatingPoint 8 24)"
	SRM    Sort = "RoundingMode"
)

func SBV(n int) Sort { return Sort(fmt.Sprintf("(_ BitVec %d)", n)) }
func SArr(i, e Sort) Sort {
	return Sort("(Array " + string(i) + " " + string(e) + ")")
}

func (s Sort) bvWidth() int {
	str := string(s)
	if strings.HasPrefix(str, "(_ BitVec ") {
		n, _ := strconv.Atoi(strings.TrimSuffix(strings.TrimPrefix(str, "(_ BitVec "), ")"))
		return n
	}
	return 0
}

// arrParts splits "(Array I E)" into I and E.
func (s Sort) arrParts() (Sort, Sort, bool) {
	str := string(s)
	if !strings.HasPrefix(str, "(Array ") {
		return "", "", false
	}
	body := str[len("(Array ") : len(str)-1]
	// first sort token
	depth := 0
	for i := 0; i < len(body); i++ {
		switch body[i] {
		case '(':
			depth++
		case ')':
			depth--
		case ' ':
			if depth == 0 {
				return Sort(body[:i]), Sort(body[i+1:]), true
			}
		}
	}
	return "", "", false
}

type tkind uint8

const (
	kApp   tkind = iota // op applied to args (op may be an indexed op like "(_ extract 7 0)")
	kLeaf               // literal or declared constant: op is its text
	kBound              // bound variable
	kQuant              // forall/exists: op, bvars, args[0]=body
)

type Term struct {
	id    int
	kind  tkind
	op    string
	args  []*Term
	sort  Sort
	open  bool // mentions a bound variable
	bvars []*Term
}

type TermStore struct {
	tab   map[string]*Term
	next  int
	fresh int
}

func NewTermStore() *TermStore { return &TermStore{tab: map[string]*Term{}} }

func (ts *TermStore) intern(k tkind, op string, sort Sort, args []*Term, bvars []*Term) *Term {
	var sb strings.Builder
	sb.WriteByte(byte('a' + k))
	sb.WriteString(op)
	sb.WriteByte('|')
	sb.WriteString(string(sort))
	for _, a := range args {
		sb.WriteByte(' ')
		sb.WriteString(strconv.Itoa(a.id))
	}
	for _, b := range bvars {
		sb.WriteByte('#')
		sb.WriteString(strconv.Itoa(b.id))
	}
	key := sb.String()
	if t, ok := ts.tab[key]; ok {
		return t
	}
	t := &Term{id: ts.next, kind: k, op: op, args: args, sort: sort, bvars: bvars}
	ts.next++
	if k == kBound {
		t.open = true
	}
	for _, a := range args {
		if a.open {
			t.open = true
		}
	}
	if k == kQuant {
		// closed if body's only bound vars are ours; conservative: compute
		t.open = hasFreeBound(args[0], bvars)
	}
	ts.tab[key] = t
	return t
}

func hasFreeBound(t *Term, bound []*Term) bool {
	if !t.open {
		return false
	}
	seen := map[int]bool{}
	var rec func(t *Term, bound []*Term) bool
	rec = func(t *Term, bound []*Term) bool {
		if !t.open {
			return false
		}
		if t.kind == kBound {
			for _, b := range bound {
				if b == t {
					return false
				}
			}
			return true
		}
		if t.kind == kQuant {
			nb := append(append([]*Term{}, bound...), t.bvars...)
			return rec(t.args[0], nb)
		}
		if seen[t.id] {
			return false
		}
		seen[t.id] = true
		for _, a := range t.args {
			if rec(a, bound) {
				return true
			}
		}
		return false
	}
	return rec(t, bound)
}

func (ts *TermStore) Leaf(text string, s Sort) *Term { return ts.intern(kLeaf, text, s, nil, nil) }

// Bound returns the bound variable for a quantifier at nesting depth d.
// Names are canonical (name, depth), so two translations of the same
// quantified spec expression are the same term.
func (ts *TermStore) Bound(name string, s Sort) *Term { return ts.BoundAt(name, s, 100) }

func (ts *TermStore) BoundAt(name string, s Sort, depth int) *Term {
	return ts.intern(kBound, fmt.Sprintf("%s!q%d", name, depth), s, nil, nil)
}

func (ts *TermStore) App(op string, s Sort, args ...*Term) *Term {
	if r := ts.fold(op, s, args); r != nil {
		return r
	}
	return ts.intern(kApp, op, s, args, nil)
}

func signExt(v uint64, w int) int64 {
	if w >= 64 {
		return int64(v)
	}
	if v&(uint64(1)<<uint(w-1)) != 0 {
		return int64(v | ^((uint64(1) << uint(w)) - 1))
	}
	return int64(v)
}

// fold evaluates bit-vector operators on literal operands.
func (ts *TermStore) fold(op string, s Sort, args []*Term) *Term {
	if len(args) == 0 || len(args) > 2 {
		return nil
	}
	vals := make([]uint64, len(args))
	for i, a := range args {
		if a.sort.bvWidth() == 0 {
			return nil
		}
		v, ok := a.bvConst()
		if !ok {
			// identities with one literal
			if len(args) == 2 && false {
				o := args[1-i]
				if ov, ok := o.bvConst(); ok && ov == 0 {
					switch op {
					case "bvadd", "bvor", "bvxor":
						return a
					case "bvsub", "bvshl", "bvlshr", "bvashr":
						if i == 0 {
							return a
						}
					}
				}
			}
			return nil
		}
		vals[i] = v
	}
	w := args[0].sort.bvWidth()
	mask := ^uint64(0)
	if w < 64 {
		mask = (uint64(1) << uint(w)) - 1
	}
	var n int
	switch {
	case strings.HasPrefix(op, "(_ zero_extend "):
		return ts.BV(vals[0], s.bvWidth())
	case strings.HasPrefix(op, "(_ sign_extend "):
		return ts.BV(uint64(signExt(vals[0], w)), s.bvWidth())
	case strings.HasPrefix(op, "(_ extract "):
		var hi, lo int
		if c, _ := fmt.Sscanf(op, "(_ extract %d %d)", &hi, &lo); c == 2 {
			return ts.BV(vals[0]>>uint(lo), hi-lo+1)
		}
		return nil
	}
	_ = n
	if len(args) == 1 {
		switch op {
		case "bvnot":
			return ts.BV(^vals[0]&mask, w)
		case "bvneg":
			return ts.BV((-vals[0])&mask, w)
		}
		return nil
	}
	a, b := vals[0], vals[1]
	sa, sb := signExt(a, w), signExt(b, w)
	switch op {
	case "bvadd":
		return ts.BV((a+b)&mask, w)
	case "bvsub":
		return ts.BV((a-b)&mask, w)
	case "bvmul":
		return ts.BV((a*b)&mask, w)
	case "bvand":
		return ts.BV(a&b, w)
	case "bvor":
		return ts.BV(a|b, w)
	case "bvxor":
		return ts.BV(a^b, w)
	case "bvshl":
		if b >= uint64(w) {
			return ts.BV(0, w)
		}
		return ts.BV((a<<b)&mask, w)
	case "bvlshr":
		if b >= uint64(w) {
			return ts.BV(0, w)
		}
		return ts.BV(a>>b, w)
	case "bvult":
		return ts.BoolLit(a < b)
	case "bvule":
		return ts.BoolLit(a <= b)
	case "bvugt":
		return ts.BoolLit(a > b)
	case "bvuge":
		return ts.BoolLit(a >= b)
	case "bvslt":
		return ts.BoolLit(sa < sb)
	case "bvsle":
		return ts.BoolLit(sa <= sb)
	case "bvsgt":
		return ts.BoolLit(sa > sb)
	case "bvsge":
		return ts.BoolLit(sa >= sb)
	}
	return nil
}

func (ts *TermStore) Quant(q string, bvars []*Term, body *Term) *Term {
	if body.isTrue() || body.isFalse() {
		return body
	}
	return ts.intern(kQuant, q, SBool, []*Term{body}, bvars)
}

func (t *Term) isTrue() bool  { return t.kind == kLeaf && t.op == "true" }
func (t *Term) isFalse() bool { return t.kind == kLeaf && t.op == "false" }

func (ts *TermStore) True() *Term  { return ts.Leaf("true", SBool) }
func (ts *TermStore) False() *Term { return ts.Leaf("false", SBool) }
func (ts *TermStore) BoolLit(b bool) *Term {
	if b {
		return ts.True()
	}
	return ts.False()
}

func (ts *TermStore) Not(a *Term) *Term {
	if a.isTrue() {
		return ts.False()
	}
	if a.isFalse() {
		return ts.True()
	}
	if a.kind == kApp && a.op == "not" {
		return a.args[0]
	}
	return ts.App("not", SBool, a)
}

func (ts *TermStore) And(as ...*Term) *Term {
	var out []*Term
	seen := map[int]bool{}
	var add func(a *Term) bool
	add = func(a *Term) bool {
		if a.isTrue() {
			return true
		}
		if a.isFalse() {
			return false
		}
		if a.kind == kApp && a.op == "and" {
			for _, x := range a.args {
				if !add(x) {
					return false
				}
			}
			return true
		}
		if !seen[a.id] {
			seen[a.id] = true
			out = append(out, a)
		}
		return true
	}
	for _, a := range as {
		if !add(a) {
			return ts.False()
		}
	}
	for _, a := range out {
		if a.kind == kApp && a.op == "not" && seen[a.args[0].id] {
			return ts.False()
		}
	}
	// unit simplification: A ∧ ¬(A ∧ X)  ==>  A ∧ ¬X
	for round := 0; round < 8; round++ {
		changed := false
		for i, a := range out {
			if !(a.kind == kApp && a.op == "not" && a.args[0].kind == kApp && a.args[0].op == "and") {
				continue
			}
			var rest []*Term
			for _, m := range a.args[0].args {
				if !seen[m.id] {
					rest = append(rest, m)
				}
			}
			if len(rest) == len(a.args[0].args) {
				continue
			}
			if len(rest) == 0 {
				return ts.False()
			}
			repl := ts.Not(ts.And(rest...))
			// rebuild with the replacement (may flatten into several conjuncts)
			nl := append(append([]*Term{}, out[:i]...), out[i+1:]...)
			nl = append(nl, repl)
			return ts.And(nl...)
		}
		if !changed {
			break
		}
	}
	switch len(out) {
	case 0:
		return ts.True()
	case 1:
		return out[0]
	}
	sort.Slice(out, func(i, j int) bool { return out[i].id < out[j].id })
	return ts.App("and", SBool, out...)
}

func (ts *TermStore) Or(as ...*Term) *Term {
	var out []*Term
	seen := map[int]bool{}
	var add func(a *Term) bool
	add = func(a *Term) bool {
		if a.isFalse() {
			return true
		}
		if a.isTrue() {
			return false
		}
		if a.kind == kApp && a.op == "or" {
			for _, x := range a.args {
				if !add(x) {
					return false
				}
			}
			return true
		}
		if !seen[a.id] {
			seen[a.id] = true
			out = append(out, a)
		}
		return true
	}
	for _, a := range as {
		if !add(a) {
			return ts.True()
		}
	}
	for _, a := range out {
		if a.kind == kApp && a.op == "not" && seen[a.args[0].id] {
			return ts.True()
		}
	}
	if len(out) >= 2 && len(out) <= 24 {
		out = ts.resolveOr(out)
		seen2 := map[int]bool{}
		for _, a := range out {
			if a.isTrue() {
				return a
			}
			seen2[a.id] = true
		}
		for _, a := range out {
			if a.kind == kApp && a.op == "not" && seen2[a.args[0].id] {
				return ts.True()
			}
		}
		sort.Slice(out, func(i, j int) bool { return out[i].id < out[j].id })
	}
	switch len(out) {
	case 0:
		return ts.False()
	case 1:
		return out[0]
	}
	return ts.App("or", SBool, out...)
}

// resolveOr simplifies a disjunction of conjunctions by resolution
// (S∧l) ∨ (S∧¬l) = S and absorption S ∨ (S∧T) = S. Path conditions of
// control-flow joins collapse to the condition of the dominating block.
func (ts *TermStore) resolveOr(args []*Term) []*Term {
	lits := func(t *Term) []*Term {
		if t.kind == kApp && t.op == "and" {
			return t.args
		}
		return []*Term{t}
	}
	neg := func(t *Term) *Term {
		if t.kind == kApp && t.op == "not" {
			return t.args[0]
		}
		return nil
	}
	type clause map[int]*Term
	mk := func(t *Term) clause {
		c := clause{}
		for _, l := range lits(t) {
			c[l.id] = l
		}
		return c
	}
	cs := make([]clause, len(args))
	for i, a := range args {
		cs[i] = mk(a)
	}
	changed := true
	rounds := 0
	for changed && rounds < 64 {
		changed = false
		rounds++
	outer:
		for i := 0; i < len(cs); i++ {
			for j := 0; j < len(cs); j++ {
				if i == j {
					continue
				}
				a, b := cs[i], cs[j]
				// absorption: a ⊆ b  => drop b
				if len(a) <= len(b) {
					sub := true
					for id := range a {
						if _, ok := b[id]; !ok {
							sub = false
							break
						}
					}
					if sub {
						cs = append(cs[:j], cs[j+1:]...)
						changed = true
						break outer
					}
				}
				if len(a) != len(b) {
					continue
				}
				// resolution: differ in exactly one literal which is negated
				var da, db *Term
				nd := 0
				for id, l := range a {
					if _, ok := b[id]; !ok {
						nd++
						da = l
					}
				}
				if nd != 1 {
					continue
				}
				for id, l := range b {
					if _, ok := a[id]; !ok {
						db = l
					}
				}
				if db == nil {
					continue
				}
				if (neg(da) == db) || (neg(db) == da) {
					nc := clause{}
					for id, l := range a {
						if l != da {
							nc[id] = l
						}
					}
					// replace i by nc, remove j
					cs[i] = nc
					cs = append(cs[:j], cs[j+1:]...)
					changed = true
					break outer
				}
			}
		}
	}
	out := make([]*Term, 0, len(cs))
	for _, c := range cs {
		if len(c) == 0 {
			return []*Term{ts.True()}
		}
		ids := make([]int, 0, len(c))
		for id := range c {
			ids = append(ids, id)
		}
		sort.Ints(ids)
		ls := make([]*Term, len(ids))
		for i, id := range ids {
			ls[i] = c[id]
		}
		if len(ls) == 1 {
			out = append(out, ls[0])
		} else {
			out = append(out, ts.App("and", SBool, ls...))
		}
	}
	return out
}

func (ts *TermStore) Implies(a, b *Term) *Term {
	if a.isTrue() {
		return b
	}
	if a.isFalse() || b.isTrue() {
		return ts.True()
	}
	if b.isFalse() {
		return ts.Not(a)
	}
	return ts.App("=>", SBool, a, b)
}

func (ts *TermStore) Ite(c, a, b *Term) *Term {
	if c.isTrue() {
		return a
	}
	if c.isFalse() {
		return b
	}
	if a == b {
		return a
	}
	if a.sort != b.sort {
		panic(fmt.Sprintf("ite sort mismatch %s vs %s", a.sort, b.sort))
	}
	if a.sort == SBool {
		if a.isTrue() && b.isFalse() {
			return c
		}
		if a.isFalse() && b.isTrue() {
			return ts.Not(c)
		}
		if a.isTrue() {
			return ts.Or(c, b)
		}
		if a.isFalse() {
			return ts.And(ts.Not(c), b)
		}
		if b.isTrue() {
			return ts.Or(ts.Not(c), a)
		}
		if b.isFalse() {
			return ts.And(c, a)
		}
	}
	return ts.App("ite", a.sort, c, a, b)
}

func (ts *TermStore) Eq(a, b *Term) *Term {
	if a == b {
		// reflexive also for floats? SMT '=' on FP is structural, so yes.
		return ts.True()
	}
	if a.sort != b.sort {
		panic(fmt.Sprintf("eq sort mismatch %s vs %s (%s, %s)", a.sort, b.sort, a.op, b.op))
	}
	if a.kind == kLeaf && b.kind == kLeaf && isLiteral(a.op) && isLiteral(b.op) {
		return ts.False() // distinct literals of same sort (hash-consed => different text)
	}
	if a.sort == SBool {
		if a.isTrue() {
			return b
		}
		if b.isTrue() {
			return a
		}
		if a.isFalse() {
			return ts.Not(b)
		}
		if b.isFalse() {
			return ts.Not(a)
		}
	}
	if a.id > b.id {
		a, b = b, a
	}
	return ts.App("=", SBool, a, b)
}

func isLiteral(op string) bool {
	if op == "true" || op == "false" {
		return true
	}
	if strings.HasPrefix(op, "#x") || strings.HasPrefix(op, "#b") {
		return true
	}
	if len(op) > 0 && (op[0] >= '0' && op[0] <= '9') {
		return true
	}
	return false
}

func (ts *TermStore) BV(v uint64, w int) *Term {
	if w%4 == 0 {
		if w < 64 {
			v &= (uint64(1) << uint(w)) - 1
		}
		return ts.Leaf(fmt.Sprintf("#x%0*x", w/4, v), SBV(w))
	}
	if w < 64 {
		v &= (uint64(1) << uint(w)) - 1
	}
	return ts.Leaf(fmt.Sprintf("#b%0*b", w, v), SBV(w))
}

func (t *Term) bvConst() (uint64, bool) {
	if t.kind != kLeaf {
		return 0, false
	}
	if strings.HasPrefix(t.op, "#x") {
		v, err := strconv.ParseUint(t.op[2:], 16, 64)
		return v, err == nil
	}
	if strings.HasPrefix(t.op, "#b") {
		v, err := strconv.ParseUint(t.op[2:], 2, 64)
		return v, err == nil
	}
	return 0, false
}

func (ts *TermStore) IntLit(v int64) *Term {
	if v < 0 {
		return ts.App("-", SInt, ts.Leaf(strconv.FormatInt(-v, 10), SInt))
	}
	return ts.Leaf(strconv.FormatInt(v, 10), SInt)
}

func (ts *TermStore) Select(a, i *Term) *Term {
	_, e, ok := a.sort.arrParts()
	if !ok {
		panic("select on non-array sort " + string(a.sort))
	}
	// select(store(a,i,v), i) = v ; skip over stores with syntactically distinct literal indices
	cur := a
	for cur.kind == kApp && cur.op == "store" {
		if cur.args[1] == i {
			return cur.args[2]
		}
		if ts.Distinct(cur.args[1], i) {
			cur = cur.args[0]
			continue
		}
		break
	}
	if cur.kind == kApp && cur.op == "ite" && arrIteLeaves(cur, 0) <= 6 {
		return ts.Ite(cur.args[0], ts.Select(cur.args[1], i), ts.Select(cur.args[2], i))
	}
	return ts.App("select", e, cur, i)
}

func (ts *TermStore) Store(a, i, v *Term) *Term {
	_, e, ok := a.sort.arrParts()
	if !ok {
		panic("store on non-array sort " + string(a.sort))
	}
	if e != v.sort {
		panic(fmt.Sprintf("store sort mismatch: array %s value %s", a.sort, v.sort))
	}
	if a.kind == kApp && a.op == "store" && a.args[1] == i {
		a = a.args[0]
	}
	return ts.App("store", a.sort, a, i, v)
}

// ---------------------------------------------------------------------------
// Printing

type printer struct {
	sb      *strings.Builder
	refs    map[int]int
	named   map[int]string
	visited map[int]bool
}

func countRefs(t *Term, refs map[int]int) {
	refs[t.id]++
	if refs[t.id] > 1 {
		return
	}
	for _, a := range t.args {
		countRefs(a, refs)
	}
}

func (p *printer) inline(t *Term) string {
	if n, ok := p.named[t.id]; ok {
		return n
	}
	switch t.kind {
	case kLeaf, kBound:
		return t.op
	case kQuant:
		var sb strings.Builder
		sb.WriteString("(" + t.op + " (")
		for _, b := range t.bvars {
			sb.WriteString("(" + b.op + " " + string(b.sort) + ")")
		}
		sb.WriteString(") ")
		sb.WriteString(p.inline(t.args[0]))
		sb.WriteString(")")
		return sb.String()
	}
	var sb strings.Builder
	sb.WriteString("(" + t.op)
	for _, a := range t.args {
		sb.WriteByte(' ')
		sb.WriteString(p.inline(a))
	}
	sb.WriteByte(')')
	return sb.String()
}

// define emits definitions (post-order) for closed shared non-leaf sub-terms.
func (p *printer) define(t *Term) {
	if p.visited[t.id] {
		return
	}
	p.visited[t.id] = true
	for _, a := range t.args {
		p.define(a)
	}
	if t.kind == kApp && !t.open && (p.refs[t.id] > 1 || len(t.args) > 6) {
		body := p.inline(t)
		name := fmt.Sprintf("d!%d", t.id)
		fmt.Fprintf(p.sb, "(define-fun %s () %s %s)\n", name, t.sort, body)
		p.named[t.id] = name
	}
}

// PrintTerms writes definitions needed for roots, then returns one string per root.
func PrintTerms(sb *strings.Builder, roots []*Term) []string {
	p := &printer{sb: sb, refs: map[int]int{}, named: map[int]string{}, visited: map[int]bool{}}
	for _, r := range roots {
		countRefs(r, p.refs)
	}
	for _, r := range roots {
		p.define(r)
	}
	out := make([]string, len(roots))
	for i, r := range roots {
		out[i] = p.inline(r)
	}
	return out
}

// collectLeaves returns the set of kLeaf non-literal names used (for declaration).
func collectLeaves(roots []*Term) map[string]Sort {
	out := map[string]Sort{}
	seen := map[int]bool{}
	var rec func(t *Term)
	rec = func(t *Term) {
		if seen[t.id] {
			return
		}
		seen[t.id] = true
		if t.kind == kLeaf && !isLiteral(t.op) {
			out[t.op] = t.sort
		}
		for _, a := range t.args {
			rec(a)
		}
	}
	for _, r := range roots {
		rec(r)
	}
	return out
}

// collectOps returns all app operator names used.
func collectOps(roots []*Term) map[string]bool {
	out := map[string]bool{}
	seen := map[int]bool{}
	var rec func(t *Term)
	rec = func(t *Term) {
		if seen[t.id] {
			return
		}
		seen[t.id] = true
		if t.kind == kApp {
			out[t.op] = true
		}
		for _, a := range t.args {
			rec(a)
		}
	}
	for _, r := range roots {
		rec(r)
	}
	return out
}

func sortedKeys[V any](m map[string]V) []string {
	ks := make([]string, 0, len(m))
	for k := range m {
		ks = append(ks, k)
	}
	sort.Strings(ks)
	return ks
}

func termSize(roots []*Term) int {
	seen := map[int]bool{}
	var rec func(t *Term)
	rec = func(t *Term) {
		if seen[t.id] {
			return
		}
		seen[t.id] = true
		for _, a := range t.args {
			rec(a)
		}
	}
	for _, r := range roots {
		rec(r)
	}
	return len(seen)
}

// isFreshRef: a reference produced by an allocation site (distinct from every
// reference that existed before it).
func isFreshRef(t *Term) bool { return t.kind == kLeaf && strings.HasPrefix(t.op, "ref_") }

// Distinct: syntactic proof that two index terms differ.
func (ts *TermStore) Distinct(a, b *Term) bool {
	if a == b {
		return false
	}
	if a.kind == kLeaf && b.kind == kLeaf && isLiteral(a.op) && isLiteral(b.op) {
		return true
	}
	if a.sort != SInt || b.sort != SInt {
		return false
	}
	if isFreshRef(a) && isFreshRef(b) {
		return true
	}
	// a fresh reference differs from every reference-valued term that existed
	// before the allocation (terms are numbered in creation order) and from nil
	if isFreshRef(a) && (b.id < a.id || (b.kind == kLeaf && b.op == "0")) && !b.open {
		return true
	}
	if isFreshRef(b) && (a.id < b.id || (a.kind == kLeaf && a.op == "0")) && !a.open {
		return true
	}
	return false
}

func arrIteLeaves(t *Term, n int) int {
	if n > 32 {
		return n
	}
	if t.kind == kApp && t.op == "ite" {
		n = arrIteLeaves(t.args[1], n)
		return arrIteLeaves(t.args[2], n)
	}
	return n + 1
}

// Subst replaces bound variables by terms.
func (ts *TermStore) Subst(t *Term, m map[*Term]*Term) *Term {
	if !t.open {
		return t
	}
	memo := map[int]*Term{}
	var rec func(t *Term) *Term
	rec = func(t *Term) *Term {
		if !t.open {
			return t
		}
		if r, ok := memo[t.id]; ok {
			return r
		}
		var r *Term
		switch t.kind {
		case kBound:
			if v, ok := m[t]; ok {
				r = v
			} else {
				r = t
			}
		case kQuant:
			r = ts.Quant(t.op, t.bvars, rec(t.args[0]))
		default:
			args := make([]*Term, len(t.args))
			for i, a := range t.args {
				args[i] = rec(a)
			}
			r = ts.rebuild(t, args)
		}
		memo[t.id] = r
		return r
	}
	return rec(t)
}

// rebuild re-applies the simplifying constructors after substitution.
func (ts *TermStore) rebuild(t *Term, args []*Term) *Term {
	switch t.op {
	case "not":
		return ts.Not(args[0])
	case "and":
		return ts.And(args...)
	case "or":
		return ts.Or(args...)
	case "=>":
		return ts.Implies(args[0], args[1])
	case "ite":
		return ts.Ite(args[0], args[1], args[2])
	case "=":
		return ts.Eq(args[0], args[1])
	case "select":
		return ts.Select(args[0], args[1])
	case "store":
		return ts.Store(args[0], args[1], args[2])
	}
	return ts.App(t.op, t.sort, args...)
}

// Replace substitutes closed subterms (by identity) and re-simplifies.
func (ts *TermStore) Replace(t *Term, m map[*Term]*Term) *Term {
	memo := map[int]*Term{}
	var rec func(t *Term) *Term
	rec = func(t *Term) *Term {
		if r, ok := m[t]; ok {
			return r
		}
		if len(t.args) == 0 || t.kind == kQuant {
			return t
		}
		if r, ok := memo[t.id]; ok {
			return r
		}
		args := make([]*Term, len(t.args))
		changed := false
		for i, a := range t.args {
			args[i] = rec(a)
			if args[i] != a {
				changed = true
			}
		}
		r := t
		if changed {
			r = ts.rebuild(t, args)
		}
		memo[t.id] = r
		return r
	}
	return rec(t)
}
