package main

import "strings"

// Ground instantiation of universally quantified hypotheses at the index
// terms that occur in the query. The instantiated (quantifier-free where
// possible) query is tried first: an `unsat` answer for it is sound because
// every instance is implied by the formula it replaces.


type instCtx struct {
	ts     *TermStore
	cands  map[Sort][]*Term
	count  int
	ground map[int][]*Term // array term id -> index terms of ground selects/stores on it
	gseen  map[int]bool
	groundApps map[string][]*Term
	groundBySort map[Sort][]*Term
}

// indexGround records the index terms of closed select/store applications.
func (ic *instCtx) indexGround(t *Term) {
	if ic.gseen[t.id] {
		return
	}
	ic.gseen[t.id] = true
	if t.kind == kApp && (t.op == "select" || t.op == "store") && !t.args[0].open && !t.args[1].open {
		a := t.args[0]
		if ic.groundBySort == nil {
			ic.groundBySort = map[Sort][]*Term{}
		}
		ic.groundBySort[a.sort] = append(ic.groundBySort[a.sort], t.args[1])
		// look through stores: indices used on a store chain are relevant for its base too
		for {
			ic.ground[a.id] = append(ic.ground[a.id], t.args[1])
			if a.kind == kApp && a.op == "store" {
				a = a.args[0]
				continue
			}
			break
		}
	}
	if t.kind == kApp && strings.HasPrefix(t.op, "ghost_") && !t.open {
		if ic.groundApps == nil {
			ic.groundApps = map[string][]*Term{}
		}
		ic.groundApps[t.op] = append(ic.groundApps[t.op], t)
	}
	for _, a := range t.args {
		ic.indexGround(a)
	}
}

// patternCands: E-matching style candidates for bound variable v in body:
// for select(A, v) / select(A, bvadd(T, v)) with A, T closed, the X of every
// ground select(A, X) / select(A, bvadd(T, X)).
func (ic *instCtx) patternCands(body *Term, v *Term) []*Term {
	seen := map[int]bool{}
	got := map[int]*Term{}
	var order []*Term
	add := func(t *Term) {
		if _, ok := got[t.id]; !ok && t.sort == v.sort && !t.open {
			got[t.id] = t
			order = append(order, t)
		}
	}
	var rec func(t *Term)
	rec = func(t *Term) {
		if seen[t.id] || !t.open {
			return
		}
		seen[t.id] = true
		if t.kind == kApp && t.op == "select" && !t.args[0].open {
			a, idx := t.args[0], t.args[1]
			var arrs []*Term
			for {
				arrs = append(arrs, a)
				if a.kind == kApp && a.op == "store" {
					a = a.args[0]
					continue
				}
				break
			}
			var gs [][]*Term
			found := false
			for _, arr := range arrs {
				if len(ic.ground[arr.id]) > 0 {
					found = true
				}
				gs = append(gs, ic.ground[arr.id])
			}
			if !found {
				// no read of this very array term: reads of arrays of the same sort
				// (the same array modulo equalities the solver knows)
				gs = [][]*Term{ic.groundBySort[a.sort]}
			}
			for _, gl := range gs {
				for _, g := range gl {
					if idx == v {
						add(g)
					} else if idx.kind == kApp && idx.op == "bvadd" && len(idx.args) == 2 {
						for k := 0; k < 2; k++ {
							if idx.args[k] == v && !idx.args[1-k].open {
								base := idx.args[1-k]
								if g.kind == kApp && g.op == "bvadd" && len(g.args) == 2 && (g.args[0] == base || g.args[1] == base) {
									if g.args[0] == base {
										add(g.args[1])
									} else {
										add(g.args[0])
									}
								} else if !g.open && g.sort == v.sort && g != base {
									// any other index G is base + (G - base): matching modulo arithmetic
									add(ic.ts.App("bvsub", g.sort, g, base))
								}
								if g == base {
									add(ic.ts.BV(0, v.sort.bvWidth()))
								} else if bz, ok := base.bvConst(); ok && bz == 0 {
									add(g)
								}
							}
						}
					}
				}
			}
		}
		// uninterpreted function applied directly to the bound variable:
		// arguments of ground applications of the same function
		if t.kind == kApp && strings.HasPrefix(t.op, "ghost_") {
			for k, a := range t.args {
				if a == v {
					for _, g := range ic.groundApps[t.op] {
						if k < len(g.args) {
							add(g.args[k])
						}
					}
				}
			}
		}
		for _, a := range t.args {
			rec(a)
		}
	}
	rec(body)
	return order
}

// collectIndexTerms gathers closed terms used as array indices.
func collectIndexTerms(roots []*Term, prefer *Term) map[Sort][]*Term {
	seen := map[int]bool{}
	set := map[Sort]map[int]*Term{}
	order := map[Sort][]*Term{}
	add := func(t *Term) {
		if t.open || t.sort == SBool {
			return
		}
		if set[t.sort] == nil {
			set[t.sort] = map[int]*Term{}
		}
		if _, ok := set[t.sort][t.id]; !ok {
			set[t.sort][t.id] = t
			order[t.sort] = append(order[t.sort], t)
		}
	}
	var rec func(t *Term)
	rec = func(t *Term) {
		if seen[t.id] {
			return
		}
		seen[t.id] = true
		if t.kind == kApp && (t.op == "select" || t.op == "store") {
			idx := t.args[1]
			add(idx)
			if idx.kind == kApp && idx.op == "bvadd" {
				for _, a := range idx.args {
					add(a)
				}
			}
		}
		for _, a := range t.args {
			rec(a)
		}
	}
	if prefer != nil {
		rec(prefer)
	}
	for _, r := range roots {
		rec(r)
	}
	out := map[Sort][]*Term{}
	for s, l := range order {
		// discovery order: index terms of the goal first, then of the hypotheses
		if len(l) > 24 {
			l = l[:24]
		}
		out[s] = l
	}
	return out
}

// weaken replaces positive universal quantifiers by finite conjunctions of instances.
func (ic *instCtx) weaken(t *Term, positive bool) *Term {
	ts := ic.ts
	switch t.kind {
	case kQuant:
		if t.open {
			return t
		}
		if (t.op == "forall") != positive {
			return t
		}
		if t.op == "exists" {
			// negative existential == universal under negation
			insts := ic.instances(t)
			if insts == nil {
				return t
			}
			out := make([]*Term, len(insts))
			for i, b := range insts {
				out[i] = ic.weaken(b, positive)
			}
			return ts.Or(out...)
		}
		insts := ic.instances(t)
		if insts == nil {
			return t
		}
		out := make([]*Term, len(insts))
		for i, b := range insts {
			out[i] = ic.weaken(b, positive)
		}
		return ts.And(out...)
	case kApp:
		switch t.op {
		case "not":
			return ts.Not(ic.weaken(t.args[0], !positive))
		case "and", "or":
			out := make([]*Term, len(t.args))
			for i, a := range t.args {
				out[i] = ic.weaken(a, positive)
			}
			if t.op == "and" {
				return ts.And(out...)
			}
			return ts.Or(out...)
		case "=>":
			return ts.Implies(ic.weaken(t.args[0], !positive), ic.weaken(t.args[1], positive))
		}
	}
	return t
}

func (ic *instCtx) instances(q *Term) []*Term {
	// cartesian product of candidates per bound variable
	lists := make([][]*Term, len(q.bvars))
	total := 1
	for i, b := range q.bvars {
		lists[i] = ic.patternCands(q.args[0], b)
		if len(lists[i]) == 0 {
			l := ic.cands[b.sort]
			if len(l) > 6 {
				l = l[:6]
			}
			lists[i] = l
		}
		if len(lists[i]) > 16 {
			lists[i] = lists[i][:16]
		}
		if len(lists[i]) == 0 {
			return nil
		}
		total *= len(lists[i])
	}
	for total > 400 {
		// shrink the longest list
		k := 0
		for i := range lists {
			if len(lists[i]) > len(lists[k]) {
				k = i
			}
		}
		if len(lists[k]) <= 1 {
			break
		}
		total = total / len(lists[k]) * (len(lists[k]) - 1)
		lists[k] = lists[k][:len(lists[k])-1]
	}
	var out []*Term
	idx := make([]int, len(lists))
	for {
		m := map[*Term]*Term{}
		for i, b := range q.bvars {
			m[b] = lists[i][idx[i]]
		}
		inst := ic.ts.Subst(q.args[0], m)
		ic.indexGround(inst)
		out = append(out, inst)
		ic.count++
		k := len(idx) - 1
		for k >= 0 {
			idx[k]++
			if idx[k] < len(lists[k]) {
				break
			}
			idx[k] = 0
			k--
		}
		if k < 0 {
			break
		}
	}
	return out
}

func hasQuant(t *Term, seen map[int]bool) bool {
	if seen[t.id] {
		return false
	}
	seen[t.id] = true
	if t.kind == kQuant {
		return true
	}
	for _, a := range t.args {
		if hasQuant(a, seen) {
			return true
		}
	}
	return false
}

// ---------------------------------------------------------------------------
// Proxy-based instantiation: every closed quantified subformula Q is replaced
// by a Boolean proxy p (same proxy for every occurrence, so the propositional
// structure of path conditions is preserved) with the axiom p ==> instances(Q)
// for a universal Q, and instances(Q) ==> p for an existential Q. The result
// is implied by the original query, so `unsat` for it is sound.

type proxyCtx struct {
	ic      *instCtx
	w       *World
	proxies map[int]*Term
	axioms  []*Term
	memo    map[int]*Term
	depth   int
}

func (pc *proxyCtx) proxify(t *Term) *Term {
	if r, ok := pc.memo[t.id]; ok {
		return r
	}
	var r *Term
	switch {
	case t.kind == kQuant && !t.open:
		p, ok := pc.proxies[t.id]
		if !ok {
			p = pc.w.Fresh("qproxy", SBool)
			pc.proxies[t.id] = p
			if pc.depth < 3 {
				pc.depth++
				insts := pc.ic.instances(t)
				var ps []*Term
				for _, in := range insts {
					ps = append(ps, pc.proxify(in))
				}
				pc.depth--
				ts := pc.ic.ts
				if t.op == "forall" {
					pc.axioms = append(pc.axioms, ts.Implies(p, ts.And(ps...)))
				} else if len(ps) > 0 {
					pc.axioms = append(pc.axioms, ts.Implies(ts.Or(ps...), p))
				}
			}
		}
		r = p
	case t.kind == kQuant:
		r = t // open quantifier inside another quantifier's body: untouched
	case len(t.args) == 0:
		r = t
	default:
		args := make([]*Term, len(t.args))
		changed := false
		for i, a := range t.args {
			args[i] = pc.proxify(a)
			if args[i] != a {
				changed = true
			}
		}
		if changed {
			r = pc.ic.ts.rebuild(t, args)
		} else {
			r = t
		}
	}
	pc.memo[t.id] = r
	return r
}
