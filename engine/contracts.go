package main

// Contract comments (//@ ...) in build-tag-guarded files of /repo are parsed
// here and turned mechanically into Go "contract functions" (one per
// contract) that are type-checked and translated by the same SSA pipeline as
// the code. The generated file is only ever passed as an overlay.

import (
	"errors"
	"fmt"
	"go/ast"
	"go/parser"
	"go/token"
	"go/types"
	"os"
	"path/filepath"
	"regexp"
	"sort"
	"strings"

	"golang.org/x/tools/go/packages"
	"golang.org/x/tools/go/ssa"
)

type clause struct {
	label string
	expr  string
	line  int
}

type loopSpec struct {
	steps    []clause
	stepFns  []string
	stepSSA  []*ssa.Function
	headState *State
	splitType, splitExpr string
	splitAlts []string
	splitFn   string
	splitSSA  *ssa.Function
	panicPoint bool
	invs     []clause
	decr     string
	unroll   int
	invFns   []string // generated function names
	invSSA   []*ssa.Function
	decrFn   string
	decrSSA  *ssa.Function
	oldFns   []string
	oldSSA   map[string]*ssa.Function
	stale    bool
	paramsOf map[string][]string // generated fn -> variable names
}

type caseSpec struct {
	param string
	alts  []string
}

type Contract struct {
	Kind       string // func | iface | lemma
	Name       string // as written: (Int).Equal, searchInts, lemma name
	ID         string // sanitized unique id
	PkgPath    string
	File       string
	Line       int
	Params     []string
	Results    []string
	Vars       string // lemma variables, Go parameter list syntax
	Requires   []clause
	Ensures    []clause
	Modifies   []string
	Loops      map[int]*loopSpec
	Panics     string
	Properties []string
	Trusted    bool
	Inline     []string
	GhostResults []string
	PanicsOnly []string
	StepProps  []string
	Opaque     []string
	StaleLoops []string
	Uses       []string
	Covers     []clause
	Cases      []caseSpec
	Shared     bool
	SplitRet   bool
	SplitPaths bool
	SplitPreds bool
	Extra      bool

	obj     *types.Func
	harness *ssa.Function
	fn      *ssa.Function
	method  *types.Func // iface contracts
	genName string
	Text    []string // raw lines, for evidence
}

var rePrev = regexp.MustCompile(`(^|[^A-Za-z0-9_.])prev\(`)

var reHead = regexp.MustCompile(`^(func\+|func|iface|lemma)\s+(.+)$`)

func parseContractFile(path string, pkgPath string) ([]*Contract, []string, error) {
	data, err := os.ReadFile(path)
	if err != nil {
		return nil, nil, err
	}
	var out []*Contract
	var imports []string
	var cur *Contract
	var lastClause *clause
	lines := strings.Split(string(data), "\n")
	for i, raw := range lines {
		l := strings.TrimSpace(raw)
		if !strings.HasPrefix(l, "//@") {
			if l == "" || !strings.HasPrefix(l, "//") {
				cur, lastClause = nil, nil
			}
			continue
		}
		body := strings.TrimPrefix(l, "//@")
		if strings.HasPrefix(body, "+") {
			if lastClause == nil {
				return nil, nil, fmt.Errorf("%s:%d: continuation without clause", path, i+1)
			}
			lastClause.expr += " " + strings.TrimSpace(body[1:])
			continue
		}
		body = strings.TrimSpace(body)
		if idx := strings.Index(body, " //"); idx >= 0 {
			body = strings.TrimSpace(body[:idx])
		}
		if body == "" {
			continue
		}
		lastClause = nil
		if strings.HasPrefix(body, "const ") {
			for _, n := range strings.Fields(strings.ReplaceAll(strings.TrimPrefix(body, "const "), ",", " ")) {
				imports = append(imports, "const:"+n)
			}
			continue
		}
		if strings.HasPrefix(body, "import ") {
			imports = append(imports, strings.TrimSpace(strings.TrimPrefix(body, "import ")))
			continue
		}
		if m := reHead.FindStringSubmatch(body); m != nil {
			cur = &Contract{Kind: m[1], Name: strings.TrimSpace(m[2]), PkgPath: pkgPath, File: path, Line: i + 1, Loops: map[int]*loopSpec{}}
			if cur.Kind == "func+" {
				// additional, verification-only contract for a function that already has one
				cur.Kind = "func"
				cur.Extra = true
			}
			out = append(out, cur)
			cur.Text = append(cur.Text, body)
			continue
		}
		if cur == nil {
			return nil, nil, fmt.Errorf("%s:%d: clause outside contract: %s", path, i+1, body)
		}
		cur.Text = append(cur.Text, body)
		kw, rest, _ := strings.Cut(body, " ")
		rest = strings.TrimSpace(rest)
		label := ""
		if j := strings.Index(kw, "["); j >= 0 && strings.HasSuffix(kw, "]") {
			label = kw[j+1 : len(kw)-1]
			kw = kw[:j]
		}
		switch kw {
		case "params":
			cur.Params = strings.Fields(strings.ReplaceAll(rest, ",", " "))
		case "results":
			cur.Results = strings.Fields(strings.ReplaceAll(rest, ",", " "))
		case "vars":
			cur.Vars = rest
		case "requires":
			cur.Requires = append(cur.Requires, clause{label: label, expr: rest, line: i + 1})
			lastClause = &cur.Requires[len(cur.Requires)-1]
		case "ensures":
			cur.Ensures = append(cur.Ensures, clause{label: label, expr: rest, line: i + 1})
			lastClause = &cur.Ensures[len(cur.Ensures)-1]
		case "cover":
			cur.Covers = append(cur.Covers, clause{label: label, expr: rest, line: i + 1})
			lastClause = &cur.Covers[len(cur.Covers)-1]
		case "modifies":
			for _, m := range strings.Split(rest, ",") {
				cur.Modifies = append(cur.Modifies, strings.TrimSpace(m))
			}
		case "loop":
			var n int
			var sub string
			parts := strings.SplitN(rest, " ", 3)
			if len(parts) == 2 && parts[1] == "panicpoint" {
				parts = append(parts, "")
			}
			if len(parts) < 3 {
				return nil, nil, fmt.Errorf("%s:%d: bad loop clause", path, i+1)
			}
			fmt.Sscanf(parts[0], "%d", &n)
			sub = parts[1]
			invLabel := ""
			if strings.HasPrefix(sub, "invariant[") && strings.HasSuffix(sub, "]") {
				invLabel = sub[len("invariant[") : len(sub)-1]
				sub = "invariant"
			}
			if strings.HasPrefix(sub, "step[") && strings.HasSuffix(sub, "]") {
				invLabel = sub[len("step[") : len(sub)-1]
				sub = "step"
			}
			ls := cur.Loops[n]
			if ls == nil {
				ls = &loopSpec{paramsOf: map[string][]string{}}
				cur.Loops[n] = ls
			}
			switch sub {
			case "invariant":
				ls.invs = append(ls.invs, clause{label: invLabel, expr: parts[2], line: i + 1})
				lastClause = &ls.invs[len(ls.invs)-1]
			case "split":
				// loop N split <type> <expr>: a, b, lo..hi, other  -- one run per value of expr at the loop head
				ty, restx, ok1 := strings.Cut(strings.TrimSpace(parts[2]), " ")
				ex, alts, ok2 := strings.Cut(restx, ":")
				if !ok1 || !ok2 {
					return nil, nil, fmt.Errorf("%s:%d: loop split needs '<type> <expr>: alts'", path, i+1)
				}
				ls.splitType, ls.splitExpr = ty, strings.TrimSpace(ex)
				cs := caseSpec{param: fmt.Sprintf("@loop%d", n)}
				for _, a := range strings.Split(alts, ",") {
					if a = strings.TrimSpace(a); a != "" {
						var lo, hi int
						if k, _ := fmt.Sscanf(a, "%d..%d", &lo, &hi); k == 2 && hi >= lo && hi-lo < 512 {
							for v := lo; v <= hi; v++ {
								cs.alts = append(cs.alts, fmt.Sprint(v))
							}
							continue
						}
						cs.alts = append(cs.alts, a)
					}
				}
				ls.splitAlts = cs.alts
				cur.Cases = append(cur.Cases, cs)
			case "step":
				// proved at every back edge, not assumed at the head (may use prev(e))
				ls.steps = append(ls.steps, clause{label: invLabel, expr: parts[2], line: i + 1})
			case "panicpoint":
				// the panic predicate is proved once at this loop head (and then known in the body)
				ls.panicPoint = true
			case "decreases":
				ls.decr = parts[2]
			case "unroll":
				fmt.Sscanf(parts[2], "%d", &ls.unroll)
			default:
				return nil, nil, fmt.Errorf("%s:%d: unknown loop clause %s", path, i+1, sub)
			}
		case "cases":
			p, alts, ok := strings.Cut(rest, ":")
			if !ok {
				return nil, nil, fmt.Errorf("%s:%d: cases needs 'param: alt, alt, ...'", path, i+1)
			}
			cs := caseSpec{param: strings.TrimSpace(p)}
			for _, a := range strings.Split(alts, ",") {
				if a = strings.TrimSpace(a); a != "" {
					var lo, hi int
					if n, _ := fmt.Sscanf(a, "%d..%d", &lo, &hi); n == 2 && hi >= lo && hi-lo < 512 {
						for k := lo; k <= hi; k++ {
							cs.alts = append(cs.alts, fmt.Sprint(k))
						}
						continue
					}
					cs.alts = append(cs.alts, a)
				}
			}
			cur.Cases = append(cur.Cases, cs)
		case "split":
			if strings.Contains(rest, "path") {
				cur.SplitPaths = true
			}
			if strings.Contains(rest, "pred") {
				// additionally one run per incoming edge of each return block
				cur.SplitPreds = true
			}
			cur.SplitRet = true
		case "panics":
			cur.Panics = rest
		case "property":
			cur.Properties = append(cur.Properties, strings.Fields(rest)...)
		case "stepproperty":
			// these properties see only the step clauses tagged with them ([label@Cxx])
			cur.StepProps = append(cur.StepProps, strings.Fields(rest)...)
			cur.Properties = append(cur.Properties, strings.Fields(rest)...)
		case "trusted":
			cur.Trusted = true
		case "ghostresult":
			// opaque niladic methods whose k-th dynamic call (in execution order of
			// the run) returns the ghost value verifrt.DynResult(method, receiver, k)
			for _, m := range strings.Split(rest, ",") {
				cur.GhostResults = append(cur.GhostResults, strings.TrimSpace(m))
			}
		case "opaque":
			// interface methods whose dynamic calls are not resolved to the module's
			// implementations in this verification (result arbitrary, assumed not to panic)
			for _, m := range strings.Split(rest, ",") {
				cur.Opaque = append(cur.Opaque, strings.TrimSpace(m))
			}
		case "panicsonly":
			// an explicit panic whose value has one of these types is a controlled
			// abort (recovered by a caller; that recover is assumed, not modelled)
			for _, m := range strings.Split(rest, ",") {
				cur.PanicsOnly = append(cur.PanicsOnly, strings.TrimSpace(m))
			}
		case "uses":
			// panic mode: calls of these functions use their ordinary (safety-verified) contracts
			for _, m := range strings.Split(rest, ",") {
				cur.Uses = append(cur.Uses, strings.TrimSpace(m))
			}
		case "inline":
			// calls of these functions inside this contract/lemma execute the body, not the contract
			for _, m := range strings.Split(rest, ",") {
				cur.Inline = append(cur.Inline, strings.TrimSpace(m))
			}
		default:
			return nil, nil, fmt.Errorf("%s:%d: unknown clause %q", path, i+1, kw)
		}
	}
	// a head may list several functions sharing the clauses
	var expanded []*Contract
	for _, c := range out {
		names := splitTop(c.Name, ",")
		for _, n := range names {
			cc := *c
			cc.Name = strings.TrimSpace(n)
			cc.Shared = len(names) > 1
			cc.ID = sanitize(filepath.Base(pkgPath) + "_" + cc.Name)
			if cc.Extra {
				cc.ID += "_extra"
			}
			cc.Requires = append([]clause{}, c.Requires...)
			cc.Ensures = append([]clause{}, c.Ensures...)
			cc.Covers = append([]clause{}, c.Covers...)
			cc.Modifies = append([]string{}, c.Modifies...)
			cc.Loops = map[int]*loopSpec{}
			for k, ls := range c.Loops {
				cp := *ls
				cp.paramsOf = map[string][]string{}
				cp.invFns, cp.invSSA = nil, nil
				cc.Loops[k] = &cp
			}
			expanded = append(expanded, &cc)
		}
	}
	return expanded, imports, nil
}

// ---------------------------------------------------------------------------
// Expression preprocessing: ==>, forall/exists, old(), result

// splitTop splits s at top-level occurrences of sep (outside brackets and strings).
func splitTop(s, sep string) []string {
	var out []string
	depth := 0
	start := 0
	inStr := byte(0)
	for i := 0; i < len(s); i++ {
		c := s[i]
		if inStr != 0 {
			if c == '\\' {
				i++
			} else if c == inStr {
				inStr = 0
			}
			continue
		}
		switch c {
		case '"', '\'', '`':
			inStr = c
		case '(', '[', '{':
			depth++
		case ')', ']', '}':
			depth--
		default:
			if depth == 0 && strings.HasPrefix(s[i:], sep) {
				out = append(out, s[start:i])
				start = i + len(sep)
				i += len(sep) - 1
			}
		}
	}
	out = append(out, s[start:])
	return out
}

var reQuant = regexp.MustCompile(`^(forall|exists)\s+([^:]+?)\s*::\s*(.*)$`)

// prep rewrites the spec expression language into plain Go.
func prep(e string, olds *[]string) string {
	e = strings.TrimSpace(e)
	// quantifier at top: extends to end
	if m := reQuant.FindStringSubmatch(e); m != nil {
		vars := strings.TrimSpace(m[2]) // "i, j int" or "a Object, b Object"
		body := prep(m[3], olds)
		fn := "Forall"
		if m[1] == "exists" {
			fn = "Exists"
		}
		n := countParams(vars)
		if n > 1 {
			fn += fmt.Sprint(n)
		}
		return fmt.Sprintf("verifrt.%s(func(%s) bool { return %s })", fn, vars, body)
	}
	// implication (right assoc, lowest precedence)
	if parts := splitTop(e, "==>"); len(parts) > 1 {
		rhs := prep(strings.Join(parts[1:], "==>"), olds)
		return fmt.Sprintf("(!(%s) || (%s))", prep(parts[0], olds), rhs)
	}
	// recurse into parenthesised groups / call arguments, handle old(...)
	var sb strings.Builder
	i := 0
	for i < len(e) {
		c := e[i]
		if c == '"' || c == '\'' || c == '`' {
			j := i + 1
			for j < len(e) && e[j] != c {
				if e[j] == '\\' {
					j++
				}
				j++
			}
			sb.WriteString(e[i:min(j+1, len(e))])
			i = j + 1
			continue
		}
		if c == '(' || c == '[' || c == '{' {
			j := matchClose(e, i)
			inner := e[i+1 : j]
			// is this old(...)?
			pre := sb.String()
			if c == '(' && strings.HasSuffix(pre, "old") && (len(pre) == 3 || !isIdentChar(pre[len(pre)-4])) {
				name := fmt.Sprintf("old_%d", len(*olds))
				*olds = append(*olds, prep(inner, nil))
				s := pre[:len(pre)-3] + name
				sb.Reset()
				sb.WriteString(s)
				i = j + 1
				continue
			}
			closeC := map[byte]byte{'(': ')', '[': ']', '{': '}'}[c]
			// arguments separated by commas are prepped individually
			parts := splitTop(inner, ",")
			sb.WriteByte(c)
			for k, p := range parts {
				if k > 0 {
					sb.WriteString(",")
				}
				if c == '(' {
					sb.WriteString(prep(p, olds))
				} else {
					sb.WriteString(prepInner(p, olds))
				}
			}
			sb.WriteByte(closeC)
			i = j + 1
			continue
		}
		sb.WriteByte(c)
		i++
	}
	return sb.String()
}

func prepInner(p string, olds *[]string) string {
	if strings.Contains(p, "==>") || strings.Contains(p, "old(") || strings.Contains(p, "forall") {
		return prep(p, olds)
	}
	return p
}

func isIdentChar(c byte) bool {
	return c == '_' || c == '.' || (c >= 'a' && c <= 'z') || (c >= 'A' && c <= 'Z') || (c >= '0' && c <= '9')
}

func matchClose(s string, i int) int {
	depth := 0
	inStr := byte(0)
	for j := i; j < len(s); j++ {
		c := s[j]
		if inStr != 0 {
			if c == '\\' {
				j++
			} else if c == inStr {
				inStr = 0
			}
			continue
		}
		switch c {
		case '"', '\'', '`':
			inStr = c
		case '(', '[', '{':
			depth++
		case ')', ']', '}':
			depth--
			if depth == 0 {
				return j
			}
		}
	}
	return len(s) - 1
}

func countParams(vars string) int {
	n := 0
	for _, grp := range strings.Split(vars, ",") {
		f := strings.Fields(grp)
		if len(f) >= 1 {
			n++
		}
	}
	return n
}

// ---------------------------------------------------------------------------
// Generation

type genCtx struct {
	pkg     *packages.Package
	imports map[string]string // alias -> path
	used    map[string]bool
}

func (g *genCtx) qual(p *types.Package) string {
	if p == g.pkg.Types {
		return ""
	}
	g.imports[p.Name()] = p.Path()
	g.used[p.Name()] = true
	return p.Name()
}

func (g *genCtx) typeStr(t types.Type) string { return types.TypeString(t, g.qual) }

// resolveFunc finds the *types.Func for "Name", "(T).M" or "(*T).M".
func resolveFunc(pkg *types.Package, name string) (*types.Func, error) {
	name = strings.TrimSpace(name)
	if strings.HasPrefix(name, "(") {
		j := strings.Index(name, ")")
		if j < 0 || j+2 > len(name) {
			return nil, fmt.Errorf("bad method name %s", name)
		}
		tn := strings.TrimPrefix(name[1:j], "*")
		mn := strings.TrimPrefix(name[j+1:], ".")
		obj := pkg.Scope().Lookup(tn)
		if obj == nil {
			return nil, fmt.Errorf("type %s not found", tn)
		}
		named, ok := obj.Type().(*types.Named)
		if !ok {
			return nil, fmt.Errorf("%s is not a named type", tn)
		}
		if iface, ok := named.Underlying().(*types.Interface); ok {
			for i := 0; i < iface.NumMethods(); i++ {
				if iface.Method(i).Name() == mn {
					return iface.Method(i), nil
				}
			}
			return nil, fmt.Errorf("interface method %s not found", name)
		}
		for i := 0; i < named.NumMethods(); i++ {
			if named.Method(i).Name() == mn {
				return named.Method(i), nil
			}
		}
		return nil, fmt.Errorf("method %s not found", name)
	}
	obj := pkg.Scope().Lookup(name)
	f, ok := obj.(*types.Func)
	if !ok {
		return nil, fmt.Errorf("function %s not found", name)
	}
	return f, nil
}

// loopStmts returns the loop statements of a function body in source order.
func loopStmts(body *ast.BlockStmt) []ast.Stmt {
	var out []ast.Stmt
	// labels that are the target of a backward goto form loops too
	gotoFrom := map[string]token.Pos{}
	ast.Inspect(body, func(n ast.Node) bool {
		if b, ok := n.(*ast.BranchStmt); ok && b.Tok == token.GOTO && b.Label != nil {
			if p, ok := gotoFrom[b.Label.Name]; !ok || b.Pos() > p {
				gotoFrom[b.Label.Name] = b.Pos()
			}
		}
		return true
	})
	ast.Inspect(body, func(n ast.Node) bool {
		switch v := n.(type) {
		case *ast.ForStmt, *ast.RangeStmt:
			out = append(out, n.(ast.Stmt))
		case *ast.LabeledStmt:
			if p, ok := gotoFrom[v.Label.Name]; ok && p > v.Pos() {
				switch v.Stmt.(type) {
				case *ast.ForStmt, *ast.RangeStmt:
				default:
					out = append(out, v)
				}
			}
		case *ast.FuncLit:
			return false
		}
		return true
	})
	return out
}

func findFuncDecl(pkg *packages.Package, f *types.Func) *ast.FuncDecl {
	for _, file := range pkg.Syntax {
		for _, d := range file.Decls {
			if fd, ok := d.(*ast.FuncDecl); ok && pkg.TypesInfo.Defs[fd.Name] == f {
				return fd
			}
		}
	}
	return nil
}

// freeLocals: identifiers in expr that resolve to local variables visible at pos.
func freeLocals(pkg *packages.Package, expr string, scope *types.Scope, pos token.Pos) ([]string, []types.Type, error) {
	e, err := parser.ParseExpr(expr)
	if err != nil {
		return nil, nil, fmt.Errorf("parse %q: %v", expr, err)
	}
	bound := map[string]bool{}
	ast.Inspect(e, func(n ast.Node) bool {
		if fl, ok := n.(*ast.FuncLit); ok {
			for _, f := range fl.Type.Params.List {
				for _, nm := range f.Names {
					bound[nm.Name] = true
				}
			}
		}
		return true
	})
	seen := map[string]bool{}
	unresolved := ""
	var names []string
	var typs []types.Type
	var walk func(n ast.Node) bool
	walk = func(n ast.Node) bool {
		switch v := n.(type) {
		case *ast.SelectorExpr:
			ast.Inspect(v.X, walk)
			return false
		case *ast.KeyValueExpr:
			ast.Inspect(v.Value, walk)
			return false
		case *ast.Ident:
			if bound[v.Name] || seen[v.Name] {
				return true
			}
			if v.Name == "verifIdx" {
				// pseudo variable: number of completed iterations of a range loop
				seen[v.Name] = true
				names = append(names, v.Name)
				typs = append(typs, types.Typ[types.Int])
				return true
			}
			_, obj := scope.LookupParent(v.Name, pos)
			if obj == nil && unresolved == "" {
				if _, isImport := pkg.Imports[v.Name]; !isImport && v.Name != "verifrt" && !strings.HasPrefix(v.Name, "old_") && v.Name != "_" {
					unresolved = v.Name
				}
			}
			if vr, ok := obj.(*types.Var); ok && vr.Parent() != pkg.Types.Scope() && vr.Parent() != types.Universe {
				seen[v.Name] = true
				names = append(names, v.Name)
				typs = append(typs, vr.Type())
			}
		}
		return true
	}
	ast.Inspect(e, walk)
	if unresolved != "" {
		return names, typs, fmt.Errorf("%w: %s", errUnresolved, unresolved)
	}
	return names, typs, nil
}

var errUnresolved = fmt.Errorf("unknown identifier")

func generatePackage(pkg *packages.Package, cts []*Contract, imports []string) (string, error) {
	g := &genCtx{pkg: pkg, imports: map[string]string{}, used: map[string]bool{}}
	for _, im := range imports {
		f := strings.Fields(im)
		switch len(f) {
		case 1:
			p := strings.Trim(f[0], `"`)
			g.imports[filepath.Base(p)] = p
		case 2:
			g.imports[f[0]] = strings.Trim(f[1], `"`)
		}
	}
	var body strings.Builder
	for _, c := range cts {
		if err := genContract(g, c, &body); err != nil {
			return "", fmt.Errorf("%s:%d: contract %s: %v", c.File, c.Line, c.Name, err)
		}
	}
	var sb strings.Builder
	sb.WriteString("//go:build verif\n\n// Code generated by govc from //@ contracts. DO NOT EDIT.\n\npackage " + pkg.Types.Name() + "\n\n")
	text := body.String()
	sb.WriteString("import (\n\tverifrt \"" + rtPath + "\"\n")
	aliases := make([]string, 0, len(g.imports))
	for a := range g.imports {
		aliases = append(aliases, a)
	}
	sort.Strings(aliases)
	for _, a := range aliases {
		if a == "verifrt" {
			continue
		}
		if regexp.MustCompile(`\b` + regexp.QuoteMeta(a) + `\.`).MatchString(text) {
			fmt.Fprintf(&sb, "\t%s %q\n", a, g.imports[a])
		}
	}
	sb.WriteString(")\n\nvar _ = verifrt.Assume\n\n")
	sb.WriteString(text)
	return sb.String(), nil
}

func genContract(g *genCtx, c *Contract, out *strings.Builder) error {
	pkg := g.pkg
	c.genName = "verif_c_" + c.ID
	switch c.Kind {
	case "lemma":
		fmt.Fprintf(out, "func %s(%s) {\n", c.genName, c.Vars)
		var olds []string
		if pkg.Types.Scope().Lookup("verifGlobals") != nil {
			out.WriteString("\tverifrt.Assume(verifGlobals())\n")
		}
		for _, r := range c.Requires {
			fmt.Fprintf(out, "\tverifrt.Assume(%s)\n", prep(r.expr, &olds))
		}
		for i, cv := range c.Covers {
			fmt.Fprintf(out, "\tverifrt.Cover(%q, %s)\n", labelOr(cv.label, "cover", i), prep(cv.expr, &olds))
		}
		for i, e := range c.Ensures {
			fmt.Fprintf(out, "\tverifrt.Assert(%q, %s)\n", labelOr(e.label, "lemma", i), prep(e.expr, &olds))
		}
		out.WriteString("}\n\n")
		return nil
	}
	f, err := resolveFunc(pkg.Types, c.Name)
	if err != nil {
		return err
	}
	c.obj = f
	sig := f.Type().(*types.Signature)
	// parameter names
	var pnames []string
	var ptypes []types.Type
	if recv := sig.Recv(); recv != nil {
		rt := recv.Type()
		if c.Kind == "iface" {
			// receiver is the interface type itself
			rt = pkg.Types.Scope().Lookup(strings.TrimPrefix(c.Name[1:strings.Index(c.Name, ")")], "*")).Type()
		}
		pnames = append(pnames, "recv")
		ptypes = append(ptypes, rt)
	}
	for i := 0; i < sig.Params().Len(); i++ {
		n := sig.Params().At(i).Name()
		if n == "" || n == "_" {
			n = fmt.Sprintf("p%d", i)
		}
		pnames = append(pnames, n)
		ptypes = append(ptypes, sig.Params().At(i).Type())
	}
	if len(c.Params) > 0 {
		if len(c.Params) != len(pnames) {
			return fmt.Errorf("params clause has %d names, function has %d parameters (receiver first)", len(c.Params), len(pnames))
		}
		pnames = c.Params
	} else if sig.Recv() != nil && sig.Recv().Name() != "" && sig.Recv().Name() != "_" {
		pnames[0] = sig.Recv().Name()
	}
	var rnames []string
	for i := 0; i < sig.Results().Len(); i++ {
		n := sig.Results().At(i).Name()
		if n == "" || n == "_" {
			n = fmt.Sprintf("r%d", i)
		}
		rnames = append(rnames, n)
	}
	if len(c.Results) > 0 {
		if len(c.Results) != len(rnames) {
			return fmt.Errorf("results clause has %d names, function has %d results", len(c.Results), len(rnames))
		}
		rnames = c.Results
	}
	// signature text
	var params, ftypes, callArgs []string
	for i, n := range pnames {
		ts := g.typeStr(ptypes[i])
		ft := ts
		arg := n
		if sig.Variadic() && i == len(pnames)-1 {
			ft = "..." + g.typeStr(ptypes[i].(*types.Slice).Elem())
			arg = n + "..."
		}
		params = append(params, n+" "+ts)
		ftypes = append(ftypes, ft)
		callArgs = append(callArgs, arg)
	}
	var rtypes []string
	for i := 0; i < sig.Results().Len(); i++ {
		rtypes = append(rtypes, g.typeStr(sig.Results().At(i).Type()))
	}
	ret := ""
	if len(rtypes) == 1 {
		ret = " " + rtypes[0]
	} else if len(rtypes) > 1 {
		ret = " (" + strings.Join(rtypes, ", ") + ")"
	}
	if len(pnames) > 0 {
		sub := func(cl []clause) {
			for i := range cl {
				cl[i].expr = strings.ReplaceAll(cl[i].expr, "$recv", pnames[0])
			}
		}
		sub(c.Requires)
		sub(c.Ensures)
		sub(c.Covers)
		for i := range c.Modifies {
			c.Modifies[i] = strings.ReplaceAll(c.Modifies[i], "$recv", pnames[0])
		}
	}
	fmt.Fprintf(out, "func %s(%s, verif_call func(%s)%s) {\n", c.genName, strings.Join(params, ", "), strings.Join(ftypes, ", "), ret)
	var olds []string
	var pre, post []string
	for _, r := range c.Requires {
		if strings.TrimSpace(r.expr) == "$args" {
			// every parameter that carries script values is well formed
			for i, n := range pnames {
				switch ts := g.typeStr(ptypes[i]); ts {
				case "Object":
					pre = append(pre, fmt.Sprintf("\tverifrt.Assume(validObj(%s))\n", n))
				case "Call":
					pre = append(pre, fmt.Sprintf("\tverifrt.Assume(specCallOK(%s))\n", n))
				case "[]Object":
					pre = append(pre, fmt.Sprintf("\tverifrt.Assume(specObjsOK(%s))\n", n))
				case "ugo.Object":
					pre = append(pre, fmt.Sprintf("\tverifrt.Assume(ugo.VerifObjOK(%s))\n", n))
				case "ugo.Call":
					pre = append(pre, fmt.Sprintf("\tverifrt.Assume(ugo.VerifCallOK(%s))\n", n))
				case "ugo.Array":
					pre = append(pre, fmt.Sprintf("\tverifrt.Assume(ugo.VerifObjsOK([]ugo.Object(%s)))\n", n))
				}
			}
			continue
		}
		pre = append(pre, fmt.Sprintf("\tverifrt.Assume(%s)\n", prep(r.expr, nil)))
	}
	for i, cv := range c.Covers {
		pre = append(pre, fmt.Sprintf("\tverifrt.Cover(%q, %s)\n", labelOr(cv.label, "cover", i), prep(cv.expr, nil)))
	}
	for i, e := range c.Ensures {
		post = append(post, fmt.Sprintf("\tverifrt.Assert(%q, %s)\n", labelOr(e.label, "post", i), prep(e.expr, &olds)))
	}
	if pkg.Types.Scope().Lookup("verifGlobals") != nil {
		out.WriteString("\tverifrt.Assume(verifGlobals())\n")
	}
	for _, p := range pre {
		out.WriteString(p)
	}
	for i, o := range olds {
		fmt.Fprintf(out, "\told_%d := %s\n", i, o)
	}
	for _, m := range c.Modifies {
		if m == "*" {
			out.WriteString("\tverifrt.ModifiesAll()\n")
			continue
		}
		if strings.HasSuffix(m, "[*]") {
			fmt.Fprintf(out, "\tverifrt.ModifiesContents(%s)\n", strings.TrimSuffix(m, "[*]"))
		} else if strings.HasPrefix(m, "*") {
			fmt.Fprintf(out, "\tverifrt.Modifies(%s)\n", strings.TrimPrefix(m, "*"))
		} else {
			fmt.Fprintf(out, "\tverifrt.Modifies(&%s)\n", m)
		}
	}
	if len(rnames) > 0 {
		fmt.Fprintf(out, "\t%s := verif_call(%s)\n", strings.Join(rnames, ", "), strings.Join(callArgs, ", "))
		for _, r := range rnames {
			fmt.Fprintf(out, "\t_ = %s\n", r)
		}
	} else {
		fmt.Fprintf(out, "\tverif_call(%s)\n", strings.Join(callArgs, ", "))
	}
	for _, p := range post {
		out.WriteString(p)
	}
	out.WriteString("}\n\n")

	// loops
	if len(c.Loops) > 0 {
		fd := findFuncDecl(pkg, f)
		if fd == nil || fd.Body == nil {
			return fmt.Errorf("no body for loop clauses")
		}
		loops := loopStmts(fd.Body)
		// rename map from contract param names to real names
		for n, ls := range c.Loops {
			if n >= len(loops) {
				if !c.Shared {
					// the code changed shape: the clause is stale, the rest of the contract is still checked
					fmt.Fprintf(os.Stderr, "STALE-LOOP-CLAUSE contract %s: loop %d does not exist (function has %d loops); clause ignored\n", c.Name, n, len(loops))
				}
				delete(c.Loops, n) // (shared head: the clause applies where the loop exists)
				continue
			}
			var pos token.Pos
			var sc *types.Scope
			switch l := loops[n].(type) {
			case *ast.ForStmt:
				pos = l.Body.Lbrace
				sc = pkg.TypesInfo.Scopes[l]
			case *ast.RangeStmt:
				pos = l.Body.Lbrace
				sc = pkg.TypesInfo.Scopes[l]
			case *ast.LabeledStmt:
				pos = l.Stmt.Pos()
				sc = pkg.Types.Scope().Innermost(pos)
			}
			if sc == nil {
				return fmt.Errorf("no scope for loop %d", n)
			}
			gen := func(kind string, k int, expr string, retType string) (string, error) {
				var olds []string
				// prev(e): the value of e (an expression over the parameters) at the head
				// of the current iteration; handled like old(e) with another evaluation state
				expr = rePrev.ReplaceAllString(expr, "${1}old(verifPrev+")
				e := prep(expr, &olds)
				names, typs, err := freeLocals(pkg, e, sc, pos)
				if err != nil {
					return "", err
				}
				// old(e) in a loop clause: the value of e (an expression over the
				// parameters) at function entry
				for _, o := range olds {
					o = strings.TrimSpace(o)
					isPrev := false
					if strings.HasPrefix(o, "verifPrev+") {
						isPrev = true
						o = strings.TrimSpace(strings.TrimPrefix(o, "verifPrev+"))
					}
					var pt types.Type
					for j := 0; j < sig.Params().Len(); j++ {
						if sig.Params().At(j).Name() == o {
							pt = sig.Params().At(j).Type()
						}
					}
					if sig.Recv() != nil && sig.Recv().Name() == o {
						pt = sig.Recv().Type()
					}
					if pt != nil && !isPrev {
						names = append(names, "old:"+o)
						typs = append(typs, pt)
						continue
					}
					// general expression: helper function evaluated in the entry state
					fsc := pkg.TypesInfo.Scopes[fd.Type]
					onames, otyps, err := freeLocals(pkg, o, fsc, fd.Body.Lbrace+1)
					if err != nil {
						return "", err
					}
					texpr := strings.ReplaceAll(o, "verifrt.Snap", "")
					tv, err := types.Eval(pkg.Fset, pkg.Types, fd.Body.Lbrace+1, texpr)
					if err != nil {
						return "", fmt.Errorf("old(%s): %v", o, err)
					}
					tv.Type = types.Default(tv.Type)
					hn := fmt.Sprintf("verif_oldv_%s_%d_%d", c.ID, n, len(ls.oldFns))
					var hps []string
					for i := range onames {
						hps = append(hps, onames[i]+" "+g.typeStr(otyps[i]))
					}
					fmt.Fprintf(out, "func %s(%s) %s { return %s }\n\n", hn, strings.Join(hps, ", "), g.typeStr(tv.Type), o)
					ls.oldFns = append(ls.oldFns, hn)
					ls.paramsOf[hn] = onames
					if isPrev {
						names = append(names, "old:@"+hn)
					} else {
						names = append(names, "old:#"+hn)
					}
					typs = append(typs, tv.Type)
				}
				fn := fmt.Sprintf("verif_%s_%s_%d_%d", kind, c.ID, n, k)
				var ps []string
				nold := 0
				for i := range names {
					pn := names[i]
					if strings.HasPrefix(pn, "old:") {
						pn = fmt.Sprintf("old_%d", nold)
						nold++
					}
					ps = append(ps, pn+" "+g.typeStr(typs[i]))
				}
				fmt.Fprintf(out, "func %s(%s) %s { return %s }\n\n", fn, strings.Join(ps, ", "), retType, e)
				ls.paramsOf[fn] = names
				return fn, nil
			}
			staleLoop := func(err error) bool {
				if err == nil || !errors.Is(err, errUnresolved) {
					return false
				}
				// a variable the clause names does not exist (any more): the clauses
				// of this loop are stale; the rest of the contract is still checked
				fmt.Fprintf(os.Stderr, "STALE-LOOP-CLAUSE contract %s loop %d: %v; clauses ignored\n", c.Name, n, err)
				c.StaleLoops = append(c.StaleLoops, fmt.Sprintf("loop %d: %v", n, err))
				delete(c.Loops, n)
				return true
			}
			isStale := false
			for k, inv := range ls.invs {
				fn, err := gen("inv", k, inv.expr, "bool")
				if staleLoop(err) {
					isStale = true
					break
				}
				if err != nil {
					return err
				}
				ls.invFns = append(ls.invFns, fn)
			}
			if isStale {
				continue
			}
			if ls.decr != "" {
				fn, err := gen("dec", 0, ls.decr, "int")
				if err != nil {
					return err
				}
				ls.decrFn = fn
			}
			for k, sc := range ls.steps {
				fn, err := gen("step", k, sc.expr, "bool")
				if err != nil {
					return err
				}
				ls.stepFns = append(ls.stepFns, fn)
			}
			if ls.splitExpr != "" {
				fn, err := gen("split", 0, ls.splitExpr, ls.splitType)
				if err != nil {
					return err
				}
				ls.splitFn = fn
			}
		}
	}
	return nil
}

func labelOr(l, def string, i int) string {
	if l != "" {
		return l
	}
	return fmt.Sprintf("%s#%d", def, i)
}

// invName: obligation name of loop invariant clause k (its label when it has one).
func (ls *loopSpec) invName(ordinal, k int) string {
	if k < len(ls.invs) && ls.invs[k].label != "" {
		return fmt.Sprintf("loop%d.%s", ordinal, ls.invs[k].label)
	}
	return fmt.Sprintf("loop%d.%d", ordinal, k)
}
