package main

import (
	"path/filepath"
	"flag"
	"fmt"
	"os"
	"runtime"
	"sort"
	"strings"
	"time"
)

func main() {
	if len(os.Args) < 2 {
		fmt.Fprintln(os.Stderr, "usage: govc check <property> [--tier quick|thorough] | govc list | govc dump <contract>")
		os.Exit(2)
	}
	cmd := os.Args[1]
	fs := flag.NewFlagSet(cmd, flag.ExitOnError)
	tier := fs.String("tier", envOr("VERIF_TIER", "quick"), "quick or thorough")
	only := fs.String("only", "", "restrict to contracts whose name contains this")
	caseF := fs.String("case", "", "restrict to case runs whose tag contains this")
	var pos []string
	rest := os.Args[2:]
	for len(rest) > 0 && !strings.HasPrefix(rest[0], "-") {
		pos = append(pos, rest[0])
		rest = rest[1:]
	}
	fs.Parse(rest)
	repo := envOr("VERIF_REPO", "/repo")
	eng := &Engine{repo: repo}
	t0 := time.Now()
	if err := eng.Load(); err != nil {
		fmt.Fprintln(os.Stderr, "govc: load failed:", err)
		os.Exit(2)
	}
	eng.loadSeconds = time.Since(t0).Seconds()
	switch cmd {
	case "list":
		for _, c := range eng.contracts {
			fmt.Printf("%-8s %-40s %v\n", c.Kind, c.Name, c.Properties)
		}
	case "check":
		if len(pos) == 0 {
			fmt.Fprintln(os.Stderr, "govc check <property>")
			os.Exit(2)
		}
		os.Exit(runCheck(eng, checkOpts{prop: pos[0], tier: *tier, only: *only, caseFilter: *caseF}, t0))
	case "replay":
		// govc replay <path of a replay test file written by a failing check>:
		// runs it again against the current tree (exit 1 if the failure reproduces)
		if len(pos) == 0 {
			fmt.Fprintln(os.Stderr, "govc replay <path>")
			os.Exit(2)
		}
		data, err := os.ReadFile(pos[0])
		if err != nil {
			fmt.Fprintln(os.Stderr, "govc replay:", err)
			os.Exit(2)
		}
		text := string(data)
		if !strings.Contains(text, "func TestVerifReplay") {
			// no input could be built for this obligation: the file carries the verifier's output only
			fmt.Print(text)
			fmt.Println("govc replay: this file has no executable test (no-failing-input-found)")
			os.Exit(0)
		}
		pkgPath := ""
		for _, l := range strings.Split(text, "\n") {
			if strings.HasPrefix(l, "package ") {
				name := strings.TrimSpace(strings.TrimPrefix(l, "package "))
				for _, p := range eng.pkgs {
					if p.Name == name || p.Name+"_test" == name {
						pkgPath = p.PkgPath
					}
				}
				break
			}
		}
		// the contract line names the file the contract lives in: prefer its package
		for _, l := range strings.Split(text, "\n") {
			if i := strings.Index(l, "// contract "); i >= 0 {
				if j := strings.Index(l, "(/"); j >= 0 {
					file := strings.TrimSuffix(strings.SplitN(l[j+1:], ":", 2)[0], ")")
					for _, p := range eng.pkgs {
						for _, gf := range p.GoFiles {
							if filepath.Dir(gf) == filepath.Dir(file) {
								pkgPath = p.PkgPath
							}
						}
					}
				}
			}
		}
		failed, out := eng.runReplayFile(pkgPath, pos[0])
		fmt.Print(out)
		if failed {
			fmt.Println("govc replay: the failure reproduces on the current tree")
			os.Exit(1)
		}
		fmt.Println("govc replay: the test does not fail on the current tree")
		os.Exit(0)
	case "dump":

		var cts []*Contract
		for _, c := range eng.contracts {
			if cmd == "check" && len(pos) > 0 && !contains(c.Properties, pos[0]) {
				continue
			}
			if cmd == "dump" && len(pos) > 0 && !strings.Contains(c.Name, pos[0]) {
				continue
			}
			if *only != "" && !strings.Contains(c.Name, *only) {
				continue
			}
			if c.Kind == "iface" {
				continue
			}
			cts = append(cts, c)
		}
		var results []*Result
		for _, c := range cts {
			t := time.Now()
			rs := eng.Verify(c)
			n := 0
			var unsupp []string
			for _, r := range rs {
				n += len(r.Obls)
				if r.Unsupported != "" {
					unsupp = append(unsupp, r.Case+": "+r.Unsupported)
				}
			}
			fmt.Fprintf(os.Stderr, "vcgen %-40s %3d cases %4d obligations %.2fs %s\n", c.Name, len(rs), n, time.Since(t).Seconds(), strings.Join(unsupp, "; "))
			results = append(results, rs...)
		}
		timeout := 20
		if *tier == "thorough" {
			timeout = 120
		}
		ds := dischargeAll(results, "/verif/out/"+strings.Join(pos, "_"), timeout, runtime.NumCPU()/2)
		var names []string
		byName := map[string]*Discharged{}
		for _, d := range ds {
			names = append(names, d.Obl.Name)
			byName[d.Obl.Name] = d
		}
		sort.Strings(names)
		bad := 0
		for _, n := range names {
			d := byName[n]
			want := "unsat"
			if d.Obl.IsCover {
				want = "sat"
			}
			mark := "ok  "
			if d.Res.Status != want {
				mark = "FAIL"
				bad++
			}
			fmt.Printf("%s %-70s %-7s %-6s %5.2fs %6dB %s:%d\n", mark, n, d.Res.Status, d.Res.Solver, d.Res.Seconds, d.Size, shortPath(d.Obl.Pos.Filename), d.Obl.Pos.Line)
		}
		fmt.Printf("%d obligations, %d failed, load %.1fs total %.1fs\n", len(names), bad, eng.loadSeconds, time.Since(t0).Seconds())
	}
}

func shortPath(p string) string { return strings.TrimPrefix(p, "/repo/") }

func envOr(k, d string) string {
	if v := os.Getenv(k); v != "" {
		return v
	}
	return d
}
