package main

import (
	"fmt"
	"go/types"
	"os"
	"path/filepath"
	"sort"
	"strings"

	"golang.org/x/tools/go/packages"
	"golang.org/x/tools/go/ssa"
	"golang.org/x/tools/go/ssa/ssautil"
)

type Engine struct {
	byFnPanic map[*ssa.Function]*Contract
	constGlobalsDone bool
	constGlobalList  []*ssa.Global
	repo        string
	prog        *ssa.Program
	pkgs        []*packages.Package
	ssaPkgs     map[string]*ssa.Package
	contracts   []*Contract
	byFn        map[*ssa.Function]*Contract
	byMethod    map[*types.Func]*Contract
	genFiles    map[string]string // path -> content (overlay)
	allocPolicy func(x *Exec, st *State, in ssa.Instruction, n *Term, elemSize int)
	loadSeconds float64
	constNames  map[string][]string
	constTabs   map[string][]*constTable
}

func env() []string {
	e := os.Environ()
	e = append(e, "GOFLAGS=-mod=mod", "GOPROXY=off", "GOSUMDB=off", "GOTOOLCHAIN=local", "CGO_ENABLED=0")
	return e
}

func (e *Engine) load(overlay map[string][]byte, mode packages.LoadMode) ([]*packages.Package, error) {
	cfg := &packages.Config{Mode: mode, Dir: e.repo, BuildFlags: []string{"-tags=verif"}, Env: env(), Overlay: overlay}
	pkgs, err := packages.Load(cfg, "./...")
	if err != nil {
		return nil, err
	}
	var errs []string
	packages.Visit(pkgs, nil, func(p *packages.Package) {
		for _, e := range p.Errors {
			errs = append(errs, e.Error())
		}
	})
	if len(errs) > 0 {
		if len(errs) > 12 {
			errs = errs[:12]
		}
		return nil, fmt.Errorf("package errors:\n  %s", strings.Join(errs, "\n  "))
	}
	return pkgs, nil
}

// Load: phase 1 (types, to generate contract functions), phase 2 (SSA with the generated overlay).
func (e *Engine) Load() error {
	pkgs, err := e.load(nil, packages.NeedName|packages.NeedFiles|packages.NeedCompiledGoFiles|packages.NeedImports|packages.NeedDeps|packages.NeedTypes|packages.NeedSyntax|packages.NeedTypesInfo|packages.NeedTypesSizes)
	if err != nil {
		return fmt.Errorf("load (phase 1): %v", err)
	}
	overlay := map[string][]byte{}
	e.genFiles = map[string]string{}
	for _, p := range pkgs {
		if !strings.HasPrefix(p.PkgPath, modPath) || len(p.GoFiles) == 0 {
			continue
		}
		dir := filepath.Dir(p.GoFiles[0])
		var cts []*Contract
		var imports []string
		files, _ := filepath.Glob(filepath.Join(dir, "verif_contracts*.go"))
		sort.Strings(files)
		for _, f := range files {
			c, im, err := parseContractFile(f, p.PkgPath)
			if err != nil {
				return err
			}
			var im2 []string
			for _, s := range im {
				if strings.HasPrefix(s, "const:") {
					if e.constNames == nil {
						e.constNames = map[string][]string{}
					}
					e.constNames[p.PkgPath] = append(e.constNames[p.PkgPath], strings.TrimPrefix(s, "const:"))
				} else {
					im2 = append(im2, s)
				}
			}
			im = im2
			cts = append(cts, c...)
			imports = append(imports, im...)
		}
		if len(cts) == 0 {
			continue
		}
		ids := map[string]bool{}
		for _, c := range cts {
			for ids[c.ID] {
				c.ID += "_"
			}
			ids[c.ID] = true
		}
		text, err := generatePackage(p, cts, imports)
		if err != nil {
			return err
		}
		gf := filepath.Join(dir, "zz_verif_gen.go")
		overlay[gf] = []byte(text)
		e.genFiles[gf] = text
		e.contracts = append(e.contracts, cts...)
	}
	pkgs2, err := e.load(overlay, packages.LoadAllSyntax)
	if err != nil {
		// keep generated text for debugging
		for f, t := range e.genFiles {
			os.MkdirAll("/verif/out/gen", 0o755)
			os.WriteFile(filepath.Join("/verif/out/gen", sanitize(f)+".go"), []byte(t), 0o644)
		}
		return fmt.Errorf("load (phase 2, with generated contract functions): %v", err)
	}
	e.pkgs = pkgs2
	prog, spkgs := ssautil.AllPackages(pkgs2, ssa.GlobalDebug|ssa.InstantiateGenerics)
	prog.Build()
	e.prog = prog
	e.ssaPkgs = map[string]*ssa.Package{}
	for _, sp := range spkgs {
		if sp != nil {
			e.ssaPkgs[sp.Pkg.Path()] = sp
		}
	}
	// also dependencies
	for _, sp := range prog.AllPackages() {
		e.ssaPkgs[sp.Pkg.Path()] = sp
	}
	e.constTabs = map[string][]*constTable{}
	if err := e.resolveConstTables(); err != nil {
		return err
	}
	// resolve contracts
	e.byFn = map[*ssa.Function]*Contract{}
	e.byMethod = map[*types.Func]*Contract{}
	for _, c := range e.contracts {
		sp := e.ssaPkgs[c.PkgPath]
		if sp == nil {
			return fmt.Errorf("no SSA package %s", c.PkgPath)
		}
		c.harness = sp.Func(c.genName)
		if c.harness == nil {
			return fmt.Errorf("generated function %s missing", c.genName)
		}
		if c.Kind == "lemma" {
			continue
		}
		f, err := resolveFunc(sp.Pkg, c.Name)
		if err != nil {
			return err
		}
		c.obj = f
		if c.Kind == "iface" {
			c.method = f
			e.byMethod[f] = c
			continue
		}
		c.fn = prog.FuncValue(f)
		if c.fn == nil {
			return fmt.Errorf("no SSA function for %s", c.Name)
		}
		if !c.Extra {
			e.byFn[c.fn] = c
		}
		if c.Panics != "" {
			if e.byFnPanic == nil {
				e.byFnPanic = map[*ssa.Function]*Contract{}
			}
			e.byFnPanic[c.fn] = c
		}
		for _, ls := range c.Loops {
			for _, n := range ls.invFns {
				ls.invSSA = append(ls.invSSA, sp.Func(n))
			}
			if ls.decrFn != "" {
				ls.decrSSA = sp.Func(ls.decrFn)
			}
			if ls.splitFn != "" {
				ls.splitSSA = sp.Func(ls.splitFn)
			}
			for _, n := range ls.stepFns {
				ls.stepSSA = append(ls.stepSSA, sp.Func(n))
			}
			ls.oldSSA = map[string]*ssa.Function{}
			for _, n := range ls.oldFns {
				ls.oldSSA[n] = sp.Func(n)
			}
		}
	}
	return nil
}

func (e *Engine) contractFor(fn *ssa.Function) *Contract { return e.byFn[fn] }

func (e *Engine) ifaceContract(m *types.Func) *Contract { return e.byMethod[m] }

func (e *Engine) isSpecFn(fn *ssa.Function) bool {
	if fnPkgPath(fn) == rtPath {
		return true
	}
	root := fn
	for root.Parent() != nil {
		root = root.Parent()
	}
	pos := root.Pos()
	if !pos.IsValid() {
		if syn := root.Syntax(); syn != nil {
			pos = syn.Pos()
		}
	}
	if !pos.IsValid() {
		return false
	}
	base := filepath.Base(e.prog.Fset.Position(pos).Filename)
	return strings.HasPrefix(base, "verif_") || strings.HasPrefix(base, "zz_verif_")
}

// ---------------------------------------------------------------------------
// Verification of one contract

type Result struct {
	Contract    *Contract
	Obls        []*Obligation
	Exec        *Exec
	Unsupported string
	Case        string
}

func (e *Engine) typesPkg(path string) *types.Package {
	if sp := e.ssaPkgs[path]; sp != nil {
		return sp.Pkg
	}
	return nil
}

type caseChoice struct {
	param string
	alt   string
}

// Verify runs the VC generator for one contract, once per combination of its
// `cases` alternatives.
func (e *Engine) Verify(c *Contract) []*Result {
	combos := [][]caseChoice{nil}
	for _, cs := range c.Cases {
		var next [][]caseChoice
		for _, base := range combos {
			for _, a := range cs.alts {
				nc := append(append([]caseChoice{}, base...), caseChoice{cs.param, a})
				next = append(next, nc)
			}
		}
		combos = next
	}
	var out []*Result
	for _, combo := range combos {
		if !c.SplitRet {
			out = append(out, e.verifyCase(c, combo, -1))
			continue
		}
		// one run per return point of the target (post-state not merged across returns)
		first := e.verifyCase(c, combo, 0)
		out = append(out, first)
		afterReturn := func(r *Result) {
			// obligations raised inside the body were already produced by run 0
			var keep []*Obligation
			for i, o := range r.Obls {
				if i >= r.Exec.oblAtReturn {
					keep = append(keep, o)
				}
			}
			r.Obls = keep
		}
		predRuns := func(j int) bool {
			n := first.Exec.retPreds[j]
			if !c.SplitPreds || c.SplitPaths || n <= 1 {
				return false
			}
			for p := 0; p < n; p++ {
				r := e.verifyCasePred(c, combo, j, p)
				afterReturn(r)
				out = append(out, r)
			}
			return true
		}
		if predRuns(0) {
			// the posts of return 0 are proved edge by edge: keep only the body obligations of run 0
			var keep []*Obligation
			for i, o := range first.Obls {
				if i < first.Exec.oblAtReturn {
					keep = append(keep, o)
				}
			}
			first.Obls = keep
		}
		for j := 1; j < first.Exec.numReturns; j++ {
			if predRuns(j) {
				continue
			}
			r := e.verifyCase(c, combo, j)
			if !c.SplitPaths {
				afterReturn(r)
			}
			out = append(out, r)
		}
	}
	return out
}

func (e *Engine) verifyCase(c *Contract, combo []caseChoice, selRet int) (res *Result) {
	return e.verifyCasePred(c, combo, selRet, -1)
}

func (e *Engine) verifyCasePred(c *Contract, combo []caseChoice, selRet, selPred int) (res *Result) {
	x := NewExec(e)
	x.selectReturn = selRet
	x.selectPred = selPred
	x.staleClauses = append(x.staleClauses, c.StaleLoops...)
	x.combo = combo
	res = &Result{Contract: c, Exec: x}
	var tags []string
	for _, ch := range combo {
		tags = append(tags, ch.param+"="+ch.alt)
	}
	if selRet >= 0 && selPred >= 0 {
		tags = append(tags, fmt.Sprintf("ret=%d.%d", selRet, selPred))
	} else if selRet >= 0 {
		tags = append(tags, fmt.Sprintf("ret=%d", selRet))
	}
	if len(tags) > 0 {
		res.Case = "[" + strings.Join(tags, ",") + "]"
		x.caseTag = res.Case
	}
	defer func() {
		if r := recover(); r != nil {
			if u, ok := r.(unsupported); ok {
				res.Unsupported = u.msg
				if x.curPos.IsValid() {
					p := x.prog.Fset.Position(x.curPos)
					res.Unsupported += fmt.Sprintf(" (near %s:%d)", shortPath(p.Filename), p.Line)
				}
				return
			}
			panic(r)
		}
	}()
	x.target = c
	x.targetFn = c.fn
	ts := x.w.ts
	st := &State{guard: ts.True(), heap: map[string]*Term{}, alloc: x.w.Const("alloc!0", SInt)}
	x.assume(x.w.intLe(ts.IntLit(0), st.alloc))
	h := c.harness
	tp := e.typesPkg(c.PkgPath)
	var args []Value
	for _, p := range h.Params {
		if p.Name() == "verif_call" {
			if c.Kind == "iface" {
				unsup("iface contracts are not verified directly")
			}
			args = append(args, &FuncRef{fn: c.fn})
			continue
		}
		var v Value
		for _, ch := range combo {
			if ch.param != p.Name() {
				continue
			}
			v = x.caseValue(st, tp, c, p, ch.alt)
		}
		if v == nil {
			v = x.symbolicValue(st, "in_"+p.Name(), p.Type())
		}
		args = append(args, v)
	}
	x.inputs = args
	if contains(c.Properties, "C18") {
		x.allocChecked = true
		for i, p := range h.Params {
			if sl, ok := p.Type().Underlying().(*types.Slice); ok {
				if b, ok := sl.Elem().Underlying().(*types.Basic); ok && b.Kind() == types.Uint8 {
					if t, ok := args[i].(*Term); ok {
						x.availLens = append(x.availLens, x.w.sLen(t))
					}
				}
			}
		}
	}
	if contains(c.Properties, "C19") && strings.Contains(c.PkgPath, "/stdlib/") {
		// module functions: a size that is not a constant must stay below 2 GiB
		// (the limit the repaired builtin repeat uses) or within an argument's length
		x.allocChecked = true
		x.allocLimit = 1<<31 - 1
		for i, p := range h.Params {
			if t, ok := args[i].(*Term); ok {
				switch p.Type().Underlying().(type) {
				case *types.Slice:
					x.availLens = append(x.availLens, x.w.sLen(t))
				case *types.Basic:
					if t.sort == SStr {
						x.availLens = append(x.availLens, x.w.strLen(t))
					}
				}
			}
		}
	}
	x.assumeConstTables(st, c.PkgPath)
	x.callFunction(h, args, nil, st)
	res.Obls = x.obls
	return res
}

// caseValue builds the input for one `cases` alternative.
func (x *Exec) caseValue(st *State, tp *types.Package, c *Contract, p *ssa.Parameter, alt string) Value {
	ts := x.w.ts
	var spec *caseSpec
	for i := range c.Cases {
		if c.Cases[i].param == p.Name() {
			spec = &c.Cases[i]
		}
	}
	_, isIface := p.Type().Underlying().(*types.Interface)
	eval := func(expr string) types.TypeAndValue {
		tv, err := types.Eval(x.prog.Fset, tp, c.harness.Pos(), expr)
		if err != nil {
			unsup("cases: cannot evaluate %q: %v", expr, err)
		}
		return tv
	}
	if alt == "other" {
		v := x.symbolicValue(st, "in_"+p.Name(), p.Type()).(*Term)
		for _, a := range spec.alts {
			if a == "other" {
				continue
			}
			if isIface {
				tv := eval(a)
				x.assume(ts.Not(x.w.isBox(tv.Type, v)))
			} else {
				x.assume(ts.Not(ts.Eq(v, x.constTerm(eval(a), p.Type()))))
			}
		}
		return v
	}
	tv := eval(alt)
	if isIface {
		if !tv.IsType() {
			unsup("cases: %s is not a type", alt)
		}
		payload := x.symbolicValue(st, "in_"+p.Name()+"_"+sanitize(alt), tv.Type).(*Term)
		return x.w.box(tv.Type, payload)
	}
	return x.constTerm(tv, p.Type())
}

func (x *Exec) constTerm(tv types.TypeAndValue, t types.Type) *Term {
	if tv.Value == nil {
		unsup("cases: not a constant")
	}
	c := ssa.NewConst(tv.Value, t)
	return x.constVal(c).(*Term)
}

// constGlobals: the package-level variables mentioned in the verifGlobals()
// functions of the loaded packages (assumed never reassigned after init).
func (e *Engine) constGlobals() []*ssa.Global {
	if e.constGlobalsDone {
		return e.constGlobalList
	}
	e.constGlobalsDone = true
	seen := map[*ssa.Global]bool{}
	for _, p := range e.prog.AllPackages() {
		fn := p.Func("verifGlobals")
		if fn == nil {
			continue
		}
		for _, b := range fn.Blocks {
			for _, ins := range b.Instrs {
				for _, op := range ins.Operands(nil) {
					if g, ok := (*op).(*ssa.Global); ok && !seen[g] {
						seen[g] = true
						e.constGlobalList = append(e.constGlobalList, g)
					}
				}
			}
		}
	}
	return e.constGlobalList
}
