#!/usr/bin/env python3
"""Self-test of the verification machinery.

mustfail/<prop>__<name>.diff : patch to /repo that breaks <prop>; the check must exit 1 with a VIOLATION line.
mustpass/<prop>__<name>.diff : harmless patch; the check must exit 0 without VIOLATION.
Each patch is applied to a scratch copy of /repo (removed afterwards); /repo itself is never touched.
"""
import glob, os, subprocess, sys, shutil, tempfile, concurrent.futures, time

REPO = os.environ.get("VERIF_REPO", "/repo")
GOVC = "/verif/bin/govc"
ENV = dict(os.environ, GOFLAGS="-mod=mod", GOPROXY="off", GOSUMDB="off", GOTOOLCHAIN="local")

def run_one(path, expect_fail):
    name = os.path.basename(path)[:-5]
    prop = name.split("__")[0]
    props = prop.split("+")
    tmp = tempfile.mkdtemp(prefix="verif-selftest-")
    try:
        scratch = os.path.join(tmp, "repo")
        subprocess.run(["rsync", "-a", "--exclude", ".git", REPO + "/", scratch + "/"], check=True)
        r = subprocess.run(["patch", "-p1", "-s", "-d", scratch, "-i", path], capture_output=True, text=True)
        if r.returncode != 0:
            return name, False, "patch does not apply: " + r.stdout + r.stderr
        b = subprocess.run(["go", "build", "./..."], cwd=scratch, env=ENV, capture_output=True, text=True)
        if b.returncode != 0:
            return name, False, "patched tree does not build: " + b.stderr[:300]
        msgs = []
        ok = True
        anyfail = False
        for p in props:
            env = dict(ENV, VERIF_REPO=scratch, VERIF_DIR=os.path.join(tmp, "verif"))
            c = subprocess.run([GOVC, "check", p, "--tier", "quick"], env=env, capture_output=True, text=True)
            viol = [l for l in c.stdout.splitlines() if l.startswith("VIOLATION")]
            detail = [l.strip() for l in c.stdout.splitlines() if l.strip().startswith("obligation")]
            if c.returncode == 1 and viol:
                anyfail = True
                msgs.append("%s: exit 1, %d violation(s); first: %s" % (p, len(viol), (detail or viol)[0][:160]))
            elif c.returncode == 0:
                msgs.append("%s: exit 0" % p)
            else:
                ok = False
                msgs.append("%s: exit %d (engine fault) %s" % (p, c.returncode, (c.stdout + c.stderr)[-300:]))
        if expect_fail:
            ok = ok and anyfail
        else:
            ok = ok and not anyfail
        return name, ok, "; ".join(msgs)
    finally:
        shutil.rmtree(tmp, ignore_errors=True)

def main():
    sel = sys.argv[1:]
    here = os.path.dirname(os.path.abspath(__file__))
    jobs = []
    if "--seeded" in sel:
        # the independently seeded changes kept under /verif/seeded (those recorded as caught) are must-fail patches too
        sel = [s for s in sel if s != "--seeded"]
        import json
        for meta in sorted(glob.glob("/verif/seeded/*/meta.json")):
            m = json.load(open(meta))
            if not m.get("caught"):
                continue
            src = os.path.join(os.path.dirname(meta), "patch.diff")
            props = "+".join(sorted(k for k, v in m["checks_run"].items() if v.get("exit") == 1)) or m["property"]
            dst = os.path.join(tempfile.gettempdir(), "%s__seed_%s.diff" % (props, m["name"].split("__", 1)[-1]))
            shutil.copy(src, dst)
            if sel and not any(s in dst for s in sel):
                continue
            jobs.append((dst, True))
        sel = sel or ["\0none"]  # with --seeded alone, run only the seeded patches
    for kind, expect in (("mustfail", True), ("mustpass", False)):
        for p in sorted(glob.glob(os.path.join(here, kind, "*.diff"))):
            if sel and not any(s in p for s in sel):
                continue
            jobs.append((p, expect))
    bad = 0
    t0 = time.time()
    with concurrent.futures.ThreadPoolExecutor(max_workers=3) as ex:
        futs = [(p, e, ex.submit(run_one, p, e)) for p, e in jobs]
        for p, e, f in futs:
            name, ok, msg = f.result()
            print("%s %-9s %-45s %s" % ("PASS" if ok else "FAIL", "mustfail" if e else "mustpass", name, msg), flush=True)
            if not ok:
                bad += 1
    print("selftest: %d patches, %d wrong, %.0fs" % (len(jobs), bad, time.time() - t0))
    sys.exit(1 if bad else 0)

main()
